#!/bin/sh
# Offline setup: make sure hypothesis is importable by /venv/bin/python, then validate the oracles.
cd "$(dirname "$0")" || exit 2
if ! /venv/bin/python -c "import hypothesis" 2>/dev/null; then
  /venv/bin/python -m pip install -q --no-index --find-links /opt/veriftools/wheels --target ./.deps hypothesis || exit 2
fi
PYTHONHASHSEED=0 PYTHONPATH="/repo:./.deps" /venv/bin/python -m bctverif.selftest || exit 2
echo "setup ok"
