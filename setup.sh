#!/bin/sh
# Offline setup: make sure hypothesis is importable by /venv/bin/python, then validate the oracles.
cd "$(dirname "$0")" || exit 2
if ! /venv/bin/python -c "import hypothesis" 2>/dev/null; then
  /venv/bin/python -m pip install -q --no-index --find-links /opt/veriftools/wheels --target ./.deps hypothesis || exit 2
fi
if ! PYTHONPATH=./.deps /venv/bin/python -c "import atheris" 2>/dev/null; then
  # optional engine: coverage-guided campaigns (checks degrade gracefully without it)
  /venv/bin/python -m pip install -q --no-index --find-links /opt/veriftools/wheels --target ./.deps atheris || echo "atheris unavailable: coverage-guided units will be skipped"
fi
PYTHONHASHSEED=0 PYTHONPATH="/repo:./.deps" /venv/bin/python -m bctverif.selftest || exit 2
echo "setup ok"
