"""Oracle self-validation (run by setup.sh): every oracle is compared with a
brute-force twin on small complete scopes. Exit 2 on disagreement."""
import itertools
import sys
from fractions import Fraction

import numpy as np

from . import gen
from .oracles import graph as og


def _fail(msg):
    print("SELFTEST FAILED: " + msg)
    sys.exit(2)


def test_shortest_paths():
    """exact_sp / hop_sets / count_sp / betweenness_exact vs explicit enumeration of all simple paths,
    all labelled digraphs n<=3 with unit lengths and all digraphs n=4 with lengths cycling over {1,2,3}."""
    lens_cycle = [1, 2, 3, 1, 1, 2, 3, 3, 2, 1, 2, 1]
    n_checked = 0
    for n in (2, 3, 4):
        for idx in range(gen.n_graphs(n, True)):
            if n == 4 and idx % 7:      # 1/7 of the n=4 space keeps setup fast
                continue
            A = gen.graph_from_index(n, idx, True)
            for weighted in (False, True):
                Lf = [[None] * n for _ in range(n)]
                for b, (i, j) in enumerate(gen.pairs(n, True)):
                    if A[i, j]:
                        Lf[i][j] = Fraction(lens_cycle[(b + idx) % 12] if weighted else 1)
                D = og.exact_sp(Lf)
                H = og.hop_sets(Lf, D)
                S = og.count_sp(Lf, D)
                BC, EBC, _, _ = og.betweenness_exact(Lf)
                bc2 = [Fraction(0)] * n
                ebc2 = [[Fraction(0)] * n for _ in range(n)]
                for s in range(n):
                    for t in range(n):
                        if s == t:
                            continue
                        paths = og.all_simple_paths(A, s, t)
                        if not paths:
                            if D[s][t] is not None:
                                _fail("exact_sp finite where no path")
                            continue
                        plen = [sum(Lf[p[k]][p[k + 1]] for k in range(len(p) - 1)) for p in paths]
                        best = min(plen)
                        if D[s][t] != best:
                            _fail("exact_sp distance")
                        sp = [p for p, l in zip(paths, plen) if l == best]
                        if S[s][t] != len(sp):
                            _fail("count_sp")
                        if H[s][t] != {len(p) - 1 for p in sp}:
                            _fail("hop_sets")
                        for p in sp:
                            for v in p[1:-1]:
                                bc2[v] += Fraction(1, len(sp))
                            for k in range(len(p) - 1):
                                ebc2[p[k]][p[k + 1]] += Fraction(1, len(sp))
                if bc2 != BC or ebc2 != EBC:
                    _fail("betweenness_exact")
                if not weighted:
                    B = og.bfs_dist(A)
                    for s in range(n):
                        for t in range(n):
                            d = D[s][t]
                            if (d is None) != (B[s, t] == og.INF) or (d is not None and d != B[s, t]):
                                _fail("bfs_dist")
                n_checked += 1
    return n_checked


def test_components():
    """components_und vs transitive closure by boolean matrix powers, all graphs n<=5."""
    k = 0
    for n in range(1, 6):
        for idx in range(gen.n_graphs(n, False)):
            A = gen.graph_from_index(n, idx, False)
            lab, m = og.components_und(A)
            R = (A | np.eye(n, dtype=bool)).astype(int)
            for _ in range(n):
                R = ((R @ R) > 0).astype(int)
            lab = np.array(lab)
            if not np.array_equal(lab[:, None] == lab[None, :], R > 0):
                _fail("components_und")
            if og.is_connected_und(A) != bool(np.all(R > 0)):
                _fail("is_connected_und")
            k += 1
    for n in range(1, 4):
        for idx in range(gen.n_graphs(n, True)):
            A = gen.graph_from_index(n, idx, True)
            R = (A | np.eye(n, dtype=bool)).astype(int)
            for _ in range(n):
                R = ((R @ R) > 0).astype(int)
            if og.is_strongly_connected(A) != bool(np.all(R > 0)):
                _fail("is_strongly_connected")
            k += 1
    return k


def test_compare():
    """the comparator itself: inf is never 'close' to a finite value, NaN equals NaN, tolerance is honoured"""
    from . import compare
    inf, nan = float("inf"), float("nan")
    must_differ = [(np.array([1.0, inf]), np.array([1.0, 2.0])), (inf, 2.0), (np.array([nan]), np.array([1.0])), (1.0, 1.0 + 1e-6),
                   ((np.array([1.0]), 2), (np.array([1.0]), 3)), (np.array([1, 2]), np.array([1, 2, 3])), (-inf, inf)]
    must_equal = [(np.array([1.0, inf, nan]), np.array([1.0, inf, nan])), (1.0, 1.0 + 1e-12), (np.float64(inf), inf),
                  ((np.array([0.5]), [1, 2]), (np.array([0.5]), [1, 2])), (np.array(3.0), 3.0)]
    for a, b in must_differ:
        if compare.deep_equal(a, b, 1e-9, 1e-10) is None:
            _fail("compare.deep_equal accepted %r vs %r" % (a, b))
    for a, b in must_equal:
        if compare.deep_equal(a, b, 1e-9, 1e-10) is not None:
            _fail("compare.deep_equal rejected %r vs %r" % (a, b))
    return len(must_differ) + len(must_equal)


def main():
    tests = [test_shortest_paths, test_components, test_compare]
    try:
        from . import selftest_more
        tests += selftest_more.TESTS
    except ImportError:
        pass
    for t in tests:
        k = t()
        print("selftest %-28s ok (%d cases)" % (t.__name__, k))
    return 0


if __name__ == "__main__":
    sys.exit(main())
