"""Isolation of library calls: per-call timeout, stdout/warning capture,
exception classification."""
import contextlib
import io
import os
import signal
import warnings

import numpy as np


class CallTimeout(BaseException):
    """BaseException so that `except Exception` inside the library cannot
    swallow it."""


def _on_alarm(signum, frame):
    raise CallTimeout()


_DEVNULL = None


def _devnull():
    global _DEVNULL
    if _DEVNULL is None:
        _DEVNULL = open(os.devnull, "w")
    return _DEVNULL


class Outcome:
    __slots__ = ("status", "value", "exc")

    def __init__(self, status, value=None, exc=None):
        self.status = status      # ok | reject | timeout | crash
        self.value = value
        self.exc = exc

    @property
    def ok(self):
        return self.status == "ok"

    def exc_name(self):
        return type(self.exc).__name__ if self.exc is not None else None

    def __repr__(self):
        if self.status == "ok":
            return "Outcome(ok)"
        return "Outcome(%s,%s:%s)" % (self.status, self.exc_name(), str(self.exc)[:120])


def rejection_types():
    from bct.utils import BCTParamError
    return (BCTParamError,)


def call(fn, *args, timeout=10.0, **kw):
    """Run fn(*args, **kw) under an interval timer with library noise muted.

    Returns Outcome. 'reject' = BCTParamError (documented rejection),
    'crash' = any other Exception, 'timeout' = budget exhausted
    (inconclusive, never a verdict by itself)."""
    rej = rejection_types()
    old = signal.signal(signal.SIGALRM, _on_alarm)
    try:
        try:
            signal.setitimer(signal.ITIMER_REAL, timeout)
            try:
                with contextlib.redirect_stdout(_devnull()), \
                        np.errstate(all="ignore"), warnings.catch_warnings():
                    warnings.simplefilter("ignore")
                    v = fn(*args, **kw)
            finally:
                signal.setitimer(signal.ITIMER_REAL, 0)
            return Outcome("ok", v)
        except CallTimeout:
            return Outcome("timeout")
        except rej as e:
            return Outcome("reject", exc=e)
        except Exception as e:  # classified, not swallowed: caller decides
            return Outcome("crash", exc=e)
    except CallTimeout:
        # alarm fired between return and timer cancel
        return Outcome("timeout")
    finally:
        signal.setitimer(signal.ITIMER_REAL, 0)
        signal.signal(signal.SIGALRM, old)
