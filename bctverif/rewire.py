"""Shared pieces for the rewiring properties (C01, C06, C11): swap-event recorder
(BCTPY_VERIF hook sink) and input strategies."""
import numpy as np
from hypothesis import strategies as st

from . import gen


class SwapRecorder:
    """Installs itself as the hook sink; records a snapshot per accepted swap."""

    def __init__(self, keep=400):
        self.events = []
        self.keep = keep
        self.count = 0

    def __enter__(self):
        import bct.utils.miscellaneous_utilities as mu
        self._mu = mu
        self._old = getattr(mu, "_verif_sink", None)
        self.available = hasattr(mu, "_verif_event") and getattr(mu, "_VERIF_ON", False)
        mu._verif_sink = self._sink
        return self

    def __exit__(self, *a):
        self._mu._verif_sink = self._old
        return False

    def _sink(self, kind, p):
        if kind != "swap":
            return
        self.count += 1
        if len(self.events) < self.keep:
            ev = {"fn": p.get("fn"), "R": np.array(p["R"], copy=True), "i": np.array(p["i"], copy=True),
                  "j": np.array(p["j"], copy=True), "e1": int(p["e1"]), "e2": int(p["e2"])}
            if p.get("D") is not None:
                ev["D"] = p["D"]
            self.events.append(ev)


UND = ["randmio_und", "randmio_und_connected", "latmio_und", "latmio_und_connected",
       "randomize_graph_partial_und", "randomizer_bin_und"]
DIR = ["randmio_dir", "randmio_dir_connected", "latmio_dir", "latmio_dir_connected"]
CONNECTED = ["randmio_und_connected", "latmio_und_connected", "randmio_dir_connected", "latmio_dir_connected"]
LATMIO = ["latmio_und", "latmio_und_connected", "latmio_dir", "latmio_dir_connected"]


def has_disjoint_pair(A, directed):
    """True iff two connections on four distinct nodes exist (the rewirers' implicit precondition)."""
    A = np.asarray(A) != 0
    n = len(A)
    E = [(i, j) for i in range(n) for j in range(n) if A[i, j] and (directed or i < j)]
    for x, (a, b) in enumerate(E):
        for (c, d) in E[x + 1:]:
            if len({a, b, c, d}) == 4:
                return True
    return False


@st.composite
def und_adj(draw, nmin, nmax, connected):
    """Symmetric support with at least two vertex-disjoint edges (nodes 0-1 and 2-3 before shuffling)."""
    n = draw(st.integers(max(4, nmin), max(4, nmax)))
    fam = draw(st.sampled_from(["tree+chords", "tree+chords", "er", "ring", "barbell", "star+edge", "dense"]))
    if fam == "tree+chords" or (connected and fam in ("er", "star+edge")):
        A = draw(gen.tree_chords_adj(n, max_chords=3))
        fam = "tree+chords"
    elif fam == "er":
        A = draw(gen.er_adj(n, False))
    elif fam == "ring":
        A = gen.ring_adj(n)
        for _ in range(draw(st.integers(0, 2))):
            a, b = draw(st.integers(0, n - 1)), draw(st.integers(0, n - 1))
            if a != b:
                A[a, b] = A[b, a] = True
    elif fam == "barbell":
        a = draw(st.integers(2, n - 2))
        A = gen.barbell_adj(a, n - a)
    elif fam == "star+edge":
        if nmax >= 30:
            # hub-dominated: two random connections are vertex-disjoint only a few percent of the time,
            # so the routines' redraw loops run for dozens of rounds
            n = draw(st.integers(48, 64))
        A = gen.star_adj(n)
    else:
        A = draw(gen.er_adj(n, False, "dense"))
    A = A.copy()
    if connected and fam == "dense":
        # make sure it is connected: add a spanning path
        for v in range(n - 1):
            A[v, v + 1] = A[v + 1, v] = True
    if not has_disjoint_pair(A, False):
        # guarantee the precondition by construction (adding edges never disconnects)
        A[0, 1] = A[1, 0] = True
        A[2, 3] = A[3, 2] = True
        if not has_disjoint_pair(A, False):   # e.g. star centred on node 1: use another pair
            A[0, 2] = A[2, 0] = True
            A[1, 3] = A[3, 1] = True
    return A, fam


@st.composite
def dir_adj(draw, nmin, nmax, connected):
    n = draw(st.integers(max(4, nmin), max(4, nmax)))
    fam = draw(st.sampled_from(["dring+chords", "dring+chords", "er", "two-cycles", "dense"]))
    if connected and fam in ("er", "dense"):
        fam = "dring+chords"
    if fam == "dring+chords":
        A = draw(gen.dring_chords_adj(n, max_chords=5))
    elif fam == "er":
        A = draw(gen.er_adj(n, True))
    elif fam == "two-cycles":
        m = draw(st.integers(2, n - 2)) if n >= 5 else 2
        A = np.zeros((n, n), dtype=bool)
        c1 = list(range(0, m + 1))
        c2 = [0] + list(range(m + 1, n))
        for cyc in (c1, c2):
            if len(cyc) >= 2:
                for x, y in zip(cyc, cyc[1:] + cyc[:1]):
                    if x != y:
                        A[x, y] = True
    else:
        A = draw(gen.er_adj(n, True, "dense"))
    A = A.copy()
    if not has_disjoint_pair(A, True):
        A[0, 1] = True
        A[2, 3] = True
    return A, fam


def shuffle(draw, A):
    n = len(A)
    if draw(st.booleans()):
        return gen.apply_perm(A, draw(gen.perm(n)))
    return A
