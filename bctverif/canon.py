"""Canonical JSON form of a case: hashing for distinctness, replay files."""
import hashlib
import json
from fractions import Fraction

import numpy as np


def to_jsonable(x):
    if isinstance(x, np.ndarray):
        return {"__nd__": to_jsonable(x.tolist()), "dtype": str(x.dtype)}
    if isinstance(x, (np.bool_,)):
        return bool(x)
    if isinstance(x, np.integer):
        return int(x)
    if isinstance(x, np.floating):
        return to_jsonable(float(x))
    if isinstance(x, float):
        if x != x:
            return {"__f__": "nan"}
        if x == float("inf"):
            return {"__f__": "inf"}
        if x == float("-inf"):
            return {"__f__": "-inf"}
        return x
    if isinstance(x, Fraction):
        return {"__frac__": [x.numerator, x.denominator]}
    if isinstance(x, dict):
        return {str(k): to_jsonable(v) for k, v in x.items()}
    if isinstance(x, (list, tuple)):
        return [to_jsonable(v) for v in x]
    if isinstance(x, (set, frozenset)):
        return sorted(to_jsonable(v) for v in x)
    if x is None or isinstance(x, (bool, int, str)):
        return x
    return repr(x)


def from_jsonable(x):
    if isinstance(x, dict):
        if "__nd__" in x:
            return np.array(from_jsonable(x["__nd__"]), dtype=np.dtype(x["dtype"]))
        if "__f__" in x:
            return float(x["__f__"])
        if "__frac__" in x:
            return Fraction(x["__frac__"][0], x["__frac__"][1])
        return {k: from_jsonable(v) for k, v in x.items()}
    if isinstance(x, list):
        return [from_jsonable(v) for v in x]
    return x


def dumps(x, **kw):
    return json.dumps(to_jsonable(x), sort_keys=True, **kw)


def case_hash(x):
    return hashlib.sha1(dumps(x).encode()).hexdigest()[:16]
