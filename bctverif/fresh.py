"""Fresh-interpreter executor: runs a list of library calls in a brand-new Python process and reports the results.

Used as a differential oracle for state that survives between calls (module-level caches, memoised tables, aliased
buffers): the same calls made in a long-lived worker -- after thousands of unrelated library calls -- must give what
they give here, in a process that has never called the library before.

stdin : pickle of [(function name, args, kwargs), ...]
stdout: pickle of [("ok", value) | ("exc", exception type name), ...]"""
import os
import pickle
import sys


def _norm(v):
    import numpy as np
    if isinstance(v, np.random.RandomState):
        s = v.get_state()
        return ("RandomState", s[0], s[1].copy(), s[2], s[3], s[4])
    if isinstance(v, tuple):
        return tuple(_norm(x) for x in v)
    if isinstance(v, list):
        return [_norm(x) for x in v]
    if isinstance(v, dict):
        return {k: _norm(x) for k, x in v.items()}
    return v


def execute(calls):
    import bct
    out = []
    for fn, args, kwargs in calls:
        try:
            out.append(("ok", _norm(getattr(bct, fn)(*args, **kwargs))))
        except Exception as e:          # the differential compares exception types as well
            out.append(("exc", type(e).__name__))
    return out


def main():
    repo = os.path.realpath(os.environ.get("VERIF_REPO", "/repo"))
    sys.path.insert(0, repo)
    calls = pickle.load(sys.stdin.buffer)
    real_stdout = sys.stdout
    sys.stdout = open(os.devnull, "w")          # the library prints progress messages
    try:
        res = execute(calls)
    finally:
        sys.stdout = real_stdout
    pickle.dump(res, sys.stdout.buffer, protocol=4)
    sys.stdout.flush()
    return 0


if __name__ == "__main__":
    sys.exit(main())
