"""C14 -- partition-consuming functions depend on the partition, not on label values."""
import numpy as np
from hypothesis import strategies as st

import bct

from .. import compare, gen
from ..core import Failure, Unit
from ..oracles import modularity as om

PROPERTY = "C14"
RULE = ("Cases = (function row, matrix, partition, relabelling): rows = participation_coef (undirected/in/out), participation_coef_sign, "
        "module_degree_zscore (flags 0-3), diversity_coef_sign, gateway_coef_sign (degree, betweenness), modularity_und/_dir with a given "
        "partition, modularity_und_sign (five qtypes), partition_distance, agreement, ci2ls/ls2ci. Matrices of the documented kind, n=3..12; "
        "partitions with 1..n blocks; relabellings = injective maps into {1..k permuted, 0..k-1, arbitrary ints in [-50,10^6]} with "
        "order-reversing maps forced in half of the cases. Oracle = f(W,ci) == f(W,relabel(ci)) (rtol 1e-10, NaN == NaN, exceptions must match "
        "by type); partition_distance symmetric, VIn = 0 and MIn = 1 exactly when the partitions coincide up to renaming, VIn in [0,1]; "
        "ci2ls/ls2ci mutually inverse up to renaming. Non-trivial = k >= 2 blocks and the relabelling is not order-preserving on the labels "
        "present (partition_distance: the two partitions differ); distinct by hash of the case.")
BOUNDS = {"n": "3..12", "rtol": 1e-10}
MIN_NONTRIVIAL = {"quick": 400, "thorough": 4000}
RT, AT = 1e-10, 1e-12

# row name -> (matrix kind, callable(W, ci) -> result to compare)
ROWS = {
    "participation_coef": ("wu", lambda W, ci: bct.participation_coef(W, ci)),
    "participation_coef(in)": ("wd", lambda W, ci: bct.participation_coef(W, ci, degree="in")),
    "participation_coef(out)": ("wd", lambda W, ci: bct.participation_coef(W, ci, degree="out")),
    "participation_coef_sign": ("sign", lambda W, ci: bct.participation_coef_sign(W, ci)),
    "module_degree_zscore(0)": ("wu", lambda W, ci: bct.module_degree_zscore(W, ci, 0)),
    "module_degree_zscore(1)": ("wd", lambda W, ci: bct.module_degree_zscore(W, ci, 1)),
    "module_degree_zscore(2)": ("wd", lambda W, ci: bct.module_degree_zscore(W, ci, 2)),
    "module_degree_zscore(3)": ("wd", lambda W, ci: bct.module_degree_zscore(W, ci, 3)),
    "diversity_coef_sign": ("sign", lambda W, ci: bct.diversity_coef_sign(W, ci)),
    "gateway_coef_sign(degree)": ("sign", lambda W, ci: bct.gateway_coef_sign(W.copy(), ci, centrality_type="degree")),
    "gateway_coef_sign(betweenness)": ("wu", lambda W, ci: bct.gateway_coef_sign(W.copy(), ci, centrality_type="betweenness")),
    "modularity_und(kci)": ("wu", lambda W, ci: bct.modularity_und(W, 1, ci)[1]),
    "modularity_dir(kci)": ("wd", lambda W, ci: bct.modularity_dir(W, 1, ci)[1]),
}
for _q in ("sta", "smp", "gja", "pos", "neg"):
    ROWS["modularity_und_sign(%s)" % _q] = ("sign", (lambda W, ci, q=_q: bct.modularity_und_sign(W, ci, q)[1]))


_NARROW = [False]


def _relabel(ci, m):
    out = np.array([m[l - 1] for l in ci])
    out = out if out.dtype.kind == "f" else out.astype(int)
    return gen.narrow_labels(out) if _NARROW[0] else out


def _order_preserving(m):
    return all(m[i] < m[i + 1] for i in range(len(m) - 1))


def kf_gateway(failure):
    """KF-C14-1: gateway_coef_sign builds the module-degree table `kj` without axis=0 and then indexes the members of a module by the
    module's number (`kj[i] /= 2`): the result depends on which number a module carries, and IndexError is raised whenever a module's index
    is not smaller than its size. Signature: the row is gateway_coef_sign and the partition has >= 2 blocks one of which has >= 2 members."""
    c = failure.case
    if not c["row"].startswith("gateway_coef_sign"):
        return False
    ci = np.asarray(c["ci"])
    sizes = np.bincount(ci)[1:]
    return len(sizes) >= 2 and sizes.max() >= 2


KF_PREDICATES = {"kf_gateway": kf_gateway}


def check(case, ctx):
    row = case["row"]
    fails = []
    ctx.label("row:" + row.split("(")[0])
    _NARROW[0] = bool(case.get("narrow"))
    if _NARROW[0]:
        ctx.label("labels-in-narrowest-int-type")
    if row == "partition_distance":
        cx, cy = np.array(case["cx"]), np.array(case["cy"])
        mx, my = case["mx"], case["my"]
        n = len(cx)
        o = ctx.call(bct.partition_distance, cx.copy(), cy.copy())
        if not o.ok:
            if o.status != "timeout":
                fails.append(Failure("crash:partition_distance:%s" % o.exc_name(), repr(o.exc)[:200], case))
            return fails
        vin, min_ = (float(v) for v in o.value)
        same = om.same_partition(cx, cy)
        kx, ky = len(set(cx.tolist())), len(set(cy.tolist()))
        if not same:
            ctx.mark_nontrivial(case)
        shp = {"flat": (n,), "column": (n, 1), "row": (1, n)}[case.get("shape", "flat")]
        ctx.label("vectors-as-" + case.get("shape", "flat"))
        o2 = ctx.call(bct.partition_distance, _relabel(cx, mx).reshape(shp), _relabel(cy, my).reshape(shp))
        d, how = compare.outcomes_equal(o, o2, RT, AT)
        if d:
            fails.append(Failure("partition_distance:depends-on-label-values", d, case))
        o3 = ctx.call(bct.partition_distance, cy.copy(), cx.copy())
        d, how = compare.outcomes_equal(o, o3, 0, 1e-12)
        if d:
            fails.append(Failure("partition_distance:not-symmetric", d, case))
        if not (-1e-12 <= vin <= 1 + 1e-12):
            fails.append(Failure("partition_distance:VIn-outside-[0,1]", "%r" % vin, case))
        trivial_both = kx == 1 and ky == 1
        if same:
            if abs(vin) > 1e-12:
                fails.append(Failure("partition_distance:VIn-nonzero-for-identical-partitions", "%r" % vin, case))
            if not trivial_both and abs(min_ - 1) > 1e-12:
                fails.append(Failure("partition_distance:MIn-not-1-for-identical-partitions", "%r" % min_, case))
        else:
            if vin <= 1e-12:
                fails.append(Failure("partition_distance:VIn-zero-for-different-partitions", "%r" % vin, case))
            if abs(min_ - 1) <= 1e-12:
                fails.append(Failure("partition_distance:MIn-1-for-different-partitions", "%r" % min_, case))
        return fails

    if row == "ci2ls/ls2ci":
        ci = np.array(case["ci"])
        m = case["m"]
        for lab in (ci, _relabel(ci, m)):
            o = ctx.call(bct.ci2ls, lab.copy())
            if not o.ok:
                if o.status != "timeout":
                    fails.append(Failure("crash:ci2ls:%s" % o.exc_name(), repr(o.exc)[:200], case))
                return fails
            ls = o.value
            flat = sorted(v for blk in ls for v in blk)
            if flat != list(range(len(ci))):
                fails.append(Failure("ci2ls:not-a-partition-of-node-indices", "%s" % ls, case))
                return fails
            blocks = {frozenset(b) for b in ls}
            want = {frozenset(np.flatnonzero(lab == l).tolist()) for l in np.unique(lab)}
            if blocks != want:
                fails.append(Failure("ci2ls:blocks-differ-from-partition", "%s" % ls, case))
            for z in (False, True):
                o2 = ctx.call(bct.ls2ci, ls, zeroindexed=z)
                if not o2.ok:
                    if o2.status != "timeout":
                        fails.append(Failure("crash:ls2ci:%s" % o2.exc_name(), repr(o2.exc)[:200], case))
                    continue
                back = np.asarray(o2.value)
                if back.shape != lab.shape or not om.same_partition(back, lab):
                    fails.append(Failure("ls2ci:round-trip-changes-partition", "zeroindexed=%s: %s -> %s" % (z, lab.tolist(), back.tolist()), case))
                elif back.min() != (0 if z else 1):
                    fails.append(Failure("ls2ci:zeroindexed-flag-ignored", "zeroindexed=%s, min label %d" % (z, back.min()), case))
                o3 = ctx.call(bct.ci2ls, back.copy())
                if o3.ok and {frozenset(b) for b in o3.value} != blocks:
                    fails.append(Failure("ci2ls:ls2ci-not-mutually-inverse", "", case))
        if len(set(ci.tolist())) >= 2 and not _order_preserving(m):
            ctx.mark_nontrivial(case)
        return fails

    if row == "agreement":
        C = np.array(case["C"])
        ms = case["ms"]
        C2 = np.column_stack([_relabel(C[:, j], ms[j]) for j in range(C.shape[1])])
        o1 = ctx.call(bct.agreement, C.copy())
        o2 = ctx.call(bct.agreement, C2)
        d, how = compare.outcomes_equal(o1, o2, RT, AT)
        ctx.notes["agreement:" + how] += 1
        if d:
            fails.append(Failure("agreement:depends-on-label-values", d, case))
        ctx.mark_nontrivial(case)
        return fails

    kind, f = ROWS[row]
    W = gen.layout(np.array(case["W"], dtype=float), case.get("order"))
    ci = np.array(case["ci"])
    m = case["m"]
    ci2 = _relabel(ci, m)
    if case.get("float_labels") and len(set(ci2.astype(float).tolist())) == len(set(ci2.tolist())):     # (only if the cast keeps them distinct)
        # label vectors produced by the library itself are often float arrays holding integers
        ci2 = ci2.astype(float)
        ctx.label("float-labels")
    o1 = ctx.call(f, gen.layout(W.copy(), case.get("order")), ci.copy())
    # history: between the two calls the routine serves the same network with the finest partition (work tables kept between calls
    # and sized by the number of communities must not leak into the next answer)
    ctx.call(f, gen.layout(W.copy(), case.get("order")), np.arange(1, len(W) + 1))
    o2 = ctx.call(f, gen.layout(W.copy(), case.get("order")), ci2.copy())
    d, how = compare.outcomes_equal(o1, o2, RT, AT)
    ctx.notes[how] += 1
    if how == "both_raise":
        ctx.notes["both_raise:" + row] += 1
    if d:
        fails.append(Failure("%s:%s" % (row, "raises-for-one-labelling-only" if how == "one_raises" else "depends-on-label-values"),
                             "labels %s vs %s: %s" % (ci.tolist(), ci2.tolist(), d), case))
    if len(set(ci.tolist())) >= 2 and not _order_preserving(m):
        ctx.mark_nontrivial(case)
    return fails


# ----------------------------------------------------------------------
@st.composite
def _matrix(draw, kind, n):
    directed = kind == "wd"
    A = draw(gen.er_adj(n, directed, draw(st.sampled_from(["medium", "dense", "sparse"]))))
    A[0, 1] = True
    if not directed:
        A[1, 0] = True
    unit = draw(st.sampled_from([1.0, 2.0 ** -30, 1.0, 2.0 ** 40]))     # every consumer here is a ratio: the unit of the weights is irrelevant
    if kind == "sign":
        return draw(gen.weights_for(A, "signed", False)) * unit
    return draw(gen.weights_for(A, draw(st.sampled_from(["bin", "dyadic", "float"])), directed)) * unit


@st.composite
def cases(draw, rows):
    row = draw(st.sampled_from(rows))
    n = draw(st.integers(3, 12))
    if row == "partition_distance":
        cx = draw(gen.partition(n))
        if draw(st.integers(0, 3)) == 0:
            cy = cx.copy()
        else:
            cy = draw(gen.partition(n))
        return {"row": row, "cx": cx, "cy": cy, "mx": draw(gen.relabelling(int(cx.max()), True)), "my": draw(gen.relabelling(int(cy.max()), True)),
                "shape": draw(st.sampled_from(["row", "flat", "column", "flat"])), "narrow": draw(st.booleans())}
    if row == "agreement":
        r = draw(st.integers(2, 4))
        cols = [draw(gen.partition(n)) for _ in range(r)]
        return {"row": row, "C": np.column_stack(cols), "ms": [draw(gen.relabelling(int(c.max()), True)) for c in cols]}
    ci = draw(gen.partition(n))
    k = int(ci.max())
    m = draw(gen.relabelling(k, force_reversing=draw(st.booleans())))
    if row == "ci2ls/ls2ci":
        return {"row": row, "ci": ci, "m": m, "narrow": draw(st.booleans())}
    W = draw(_matrix(ROWS[row][0], n))
    return {"row": row, "W": W, "ci": ci, "m": m, "order": draw(st.sampled_from(gen.ORDERS)), "float_labels": draw(st.integers(0, 3)) == 0,
            "narrow": draw(st.booleans())}


def units(tier):
    rows = list(ROWS)
    us = [Unit(r, check, strategy=(lambda rr=r: cases([rr])), examples=(400, 12000), shards=(1, 4)) for r in rows]
    us.append(Unit("partition_distance", check, strategy=lambda: cases(["partition_distance"]), examples=(3000, 60000), shards=(8, 8)))
    us.append(Unit("ci2ls/ls2ci", check, strategy=lambda: cases(["ci2ls/ls2ci"]), examples=(1500, 32000), shards=(4, 8)))
    us.append(Unit("agreement", check, strategy=lambda: cases(["agreement"]), examples=(100, 4000), shards=(1, 2)))
    return us
