"""C09 -- clustering coefficients and transitivity equal their triangle definitions."""
import numpy as np
from hypothesis import strategies as st

import bct

from .. import gen
from ..core import Failure, Unit
from ..oracles import clustering as oc

PROPERTY = "C09"
RULE = ("Cases = (kind, matrix) with kind in bu/bd (0/1, float64 or int64; complete enumeration of labelled graphs/digraphs up to the "
        "stated n plus random), wu/wd (weights k/8 or generic floats in (0,1], also the whole matrix times 2^-30, 2^-60, 2^-100) and sign (symmetric, weights +-k/8); empty diagonal; "
        "families: ER, trees+chords, bipartite, stars, rings, graphs with isolated and degree-1 nodes. Oracle = O(n^3) enumeration of "
        "node triples of the published definitions (neighbour-pair fraction, Fagiolo's directed count, Onnela intensity; transitivity = "
        "sum of numerators / sum of denominators with no per-node masking). Non-trivial = at least one triangle AND at least one node "
        "on no triangle; distinct by hash of (kind, matrix).")
BOUNDS = {"exhaustive_quick": "graphs n<=5, digraphs n<=4", "exhaustive_thorough": "graphs n<=6, digraphs n<=4 (all), n=5 every 8th",
          "random_n": "3..12 (3..40 and 101..130 in the large units)", "rtol": 1e-10}
MIN_NONTRIVIAL = {"quick": 300, "thorough": 3000}
RT, AT = 1e-10, 1e-12


_ATS = [1.0]     # absolute tolerance is relative to the largest weight (intensities are linear in the unit of the weights)


def _vec(name, got, num, den, case, fails, unit_weights, ratio=False):
    at = AT if ratio else AT * _ATS[0]
    want = oc.coef(num, den)
    try:
        got = np.asarray(got, dtype=float)
    except Exception:
        fails.append(Failure("%s:bad-return" % name, repr(got)[:200], case))
        return
    if got.shape != want.shape:
        fails.append(Failure("%s:shape" % name, "%s" % (got.shape,), case))
        return
    for u in range(len(want)):
        if num[u] == 0:
            if not (got[u] == 0):
                fails.append(Failure("%s:node-without-triangle-not-zero" % name,
                                     "node %d has no triangle / <2 neighbours but value is %r" % (u, got[u]), case))
                return
        elif not np.isclose(got[u], want[u], rtol=RT, atol=at):
            fails.append(Failure("%s:value-differs-from-definition" % name,
                                 "node %d: returned %r, triple enumeration gives %r" % (u, got[u], want[u]), case))
            return
    if unit_weights and (np.any(got < -1e-12) or np.any(got > 1 + 1e-12)):
        fails.append(Failure("%s:out-of-[0,1]" % name, "values %s" % got, case))


def _scal(name, got, num, den, case, fails):
    want = oc.transitivity(num, den)
    try:
        got = float(got)
    except Exception:
        fails.append(Failure("%s:bad-return" % name, repr(got)[:200], case))
        return
    if want is None:      # 0/0: NaN or 0 both accepted
        if not (np.isnan(got) or got == 0):
            fails.append(Failure("%s:no-connected-triple" % name, "returned %r for a graph with no connected triple" % got, case))
        return
    if not np.isclose(got, want, rtol=RT, atol=AT * _ATS[0]):
        fails.append(Failure("%s:value-differs-from-definition" % name,
                             "returned %r, triangle-to-triple ratio by enumeration is %r" % (got, want), case,
                             {"some_node_without_triangle": bool(np.any(num == 0))}))
    elif got < -1e-12 or got > 1 + 1e-12:
        fails.append(Failure("%s:out-of-[0,1]" % name, "%r" % got, case))


def check(case, ctx):
    kind = case["kind"]
    W = gen.layout(np.array(case["W"]), case.get("order"))
    fails = []
    ctx.label("kind:" + kind)
    _ATS[0] = 1.0
    if kind in ("wu", "wd", "sign") and W.size and np.any(W):
        _ATS[0] = min(1.0, float(np.max(np.abs(W))))
        if _ATS[0] < 1e-6:
            ctx.label("tiny-weights")
    if W.dtype.kind == "i":
        ctx.label("int64")

    def run(fn, *a, **k):
        o = ctx.call(fn, *a, **k)
        if o.ok:
            return o.value
        if o.status != "timeout":
            fails.append(Failure("crash:%s:%s" % (fn.__name__, o.exc_name()), "%r on dtype %s" % (o.exc, W.dtype), case))
        return None

    if kind in ("bu", "wu"):
        num, den = oc.und_terms(W.astype(float), weighted=(kind == "wu"))
        fc, ft = (bct.clustering_coef_bu, bct.transitivity_bu) if kind == "bu" else (bct.clustering_coef_wu, bct.transitivity_wu)
    elif kind in ("bd", "wd"):
        num, den = oc.dir_terms(W.astype(float), weighted=(kind == "wd"))
        fc, ft = (bct.clustering_coef_bd, bct.transitivity_bd) if kind == "bd" else (bct.clustering_coef_wd, bct.transitivity_wd)
    else:
        Wp = W * (W > 0)
        Wn = -W * (W < 0)
        nump, denp = oc.und_terms(Wp, True)
        numn, denn = oc.und_terms(Wn, True)
        if (np.any(nump > 0) and np.any(nump == 0)) or (np.any(numn > 0) and np.any(numn == 0)):
            ctx.mark_nontrivial({"kind": kind, "W": W})
        r = run(bct.clustering_coef_wu_sign, gen.layout(W.copy(), case.get("order")))
        if r is not None:
            try:
                cp, cn = r
            except Exception:
                fails.append(Failure("clustering_coef_wu_sign:bad-return", repr(r)[:200], case))
                return fails
            _vec("clustering_coef_wu_sign(pos)", cp, nump, denp, case, fails, True)
            _vec("clustering_coef_wu_sign(neg)", cn, numn, denn, case, fails, True)
        # the two other published variants of the signed coefficient
        W0 = W.copy()
        np.fill_diagonal(W0, 0)
        r = run(bct.clustering_coef_wu_sign, gen.layout(W.copy(), case.get("order")), coef_type="zhang")
        if r is not None:
            try:
                zp, zn = r
                _vec("clustering_coef_wu_sign(zhang,pos)", zp, *oc.zhang_terms(W0 * (W0 > 0)), case, fails, True, ratio=True)
                _vec("clustering_coef_wu_sign(zhang,neg)", zn, *oc.zhang_terms(-W0 * (W0 < 0)), case, fails, True, ratio=True)
            except TypeError:
                fails.append(Failure("clustering_coef_wu_sign(zhang):bad-return", repr(r)[:200], case))
        r = run(bct.clustering_coef_wu_sign, gen.layout(W.copy(), case.get("order")), coef_type="costantini")
        if r is not None:
            _vec("clustering_coef_wu_sign(costantini)", r, *oc.costantini_terms(W0), case, fails, False, ratio=True)
        return fails

    if np.any(num > 0) and np.any(num == 0):
        ctx.mark_nontrivial({"kind": kind, "W": W})
    if not np.any(num > 0):
        ctx.label("triangle-free")
    if np.any(den == 0):
        ctx.label("has-node-with-<2-neighbours")
    r = run(fc, gen.layout(W.copy(), case.get("order")))
    if r is not None:
        _vec(fc.__name__, r, num, den, case, fails, True)
    r = run(ft, gen.layout(W.copy(), case.get("order")))
    if r is not None:
        _scal(ft.__name__, r, num, den, case, fails)
    # history: the SAME array object is handed in again after having been edited in place (as callers do when they threshold or
    # rescale a matrix between two measurements); the second answers must describe the edited matrix
    X = gen.layout(W.copy().astype(float), case.get("order"))
    run(fc, X)
    run(ft, X)
    drop = case.get("drop")
    if drop is not None and len(X) > drop:
        X[drop, :] = 0          # disconnect one node in place ...
        X[:, drop] = 0
        if kind in ("wu", "wd"):
            X *= 0.5             # ... and rescale all weights (weighted routines only: binary routines are documented for 0/1 input)
        if kind in ("bu", "wu"):
            num2, den2 = oc.und_terms(X, weighted=(kind == "wu"))
        else:
            num2, den2 = oc.dir_terms(X, weighted=(kind == "wd"))
        r = run(fc, X)
        if r is not None:
            _vec(fc.__name__ + "[same-array-edited-in-place]", r, num2, den2, case, fails, True)
        r = run(ft, X)
        if r is not None:
            _scal(ft.__name__ + "[same-array-edited-in-place]", r, num2, den2, case, fails)
    return fails


@st.composite
def _adj(draw, nmax, directed, nmin=3):
    fam = draw(st.sampled_from(["er", "er", "tree", "structured", "tri+pendant", "isolated"])) if nmin <= 3 else \
        draw(st.sampled_from(["tri+pendant", "tree", "lollipop"]))
    if fam == "lollipop":
        # a clique with a tail: nodes of large degree, of degree 2 and a leaf in one network
        n = draw(st.integers(nmin, nmax))
        c = draw(st.integers(4, 12))
        A = gen.block_diag(gen.complete_adj(c), gen.path_adj(n - c))
        A[c - 1, c] = A[c, c - 1] = True
    elif fam == "er":
        A = draw(gen.er_adj(draw(st.integers(3, nmax)), directed))
    elif fam == "tree":
        A = draw(gen.tree_chords_adj(draw(st.integers(nmin, nmax)), max_chords=2))
    elif fam == "structured":
        A, _ = draw(gen.structured_adj(3, nmax))
    elif fam == "tri+pendant":
        n = draw(st.integers(max(4, nmin), max(4, nmax)))
        A = draw(gen.tree_adj(n))
        # close a few triangles on the tree: connect two neighbours of a node
        for _ in range(draw(st.integers(1, 3))):
            u = draw(st.integers(0, n - 1))
            nb = np.flatnonzero(A[u])
            if len(nb) >= 2:
                a = nb[draw(st.integers(0, len(nb) - 1))]
                b = nb[draw(st.integers(0, len(nb) - 1))]
                if a != b:
                    A[a, b] = A[b, a] = True
    else:
        m = draw(st.integers(3, max(3, nmax - 1)))
        A = gen.block_diag(draw(gen.er_adj(m, directed, "dense")), np.zeros((1, 1), dtype=bool))
    n = len(A)
    if directed and fam not in ("er", "isolated"):
        pr = [(i, j) for (i, j) in gen.pairs(n, False) if A[i, j]]
        keep = draw(st.lists(st.integers(0, 3), min_size=len(pr), max_size=len(pr)))
        A = A.copy()
        for (i, j), k in zip(pr, keep):
            if k == 1:
                A[j, i] = False
            elif k == 2:
                A[i, j] = False
    if draw(st.booleans()):
        A = gen.apply_perm(A, draw(gen.perm(n)))
    return A


@st.composite
def cases(draw, nmax, kinds, nmin=3):
    kind = draw(st.sampled_from(kinds))
    directed = kind in ("bd", "wd")
    A = draw(_adj(nmax, directed, nmin))
    if kind in ("bu", "bd"):
        W = draw(gen.weights_for(A, draw(st.sampled_from(["bin", "bin", "int"])), directed))
    elif kind in ("wu", "wd"):
        W = draw(gen.weights_for(A, draw(st.sampled_from(["dyadic", "float"])), directed))
    else:
        W = draw(gen.weights_for(A, "signed", False))
    if kind not in ("bu", "bd") and draw(st.integers(0, 3)) == 0:
        # a few connections weaker than the rest by twelve or more orders of magnitude (all exact powers of two)
        f = draw(st.sampled_from([2.0 ** -40, 2.0 ** -56, 2.0 ** -34]))
        pr = [(i, j) for (i, j) in gen.pairs(len(W), directed) if W[i, j] != 0]
        pick = draw(st.lists(st.integers(0, 2), min_size=len(pr), max_size=len(pr)))
        for (i, j), b in zip(pr, pick):
            if b == 0:
                W[i, j] *= f
                if not directed:
                    W[j, i] = W[i, j]
    if kind not in ("bu", "bd"):
        # the same network in a much smaller unit (still inside [0,1]): definitions are linear / invariant in the unit
        W = W * draw(st.sampled_from([1.0, 2.0 ** -30, 1.0, 2.0 ** -60, 2.0 ** -100]))
    return {"kind": kind, "W": W, "order": draw(st.sampled_from(gen.ORDERS)), "drop": draw(st.integers(0, 2))}


_SP = {}


def _space(tier):
    if tier not in _SP:
        specs = [(1, False), (2, False), (3, False), (4, False), (5, False), (2, True), (3, True), (4, True)]
        if tier == "thorough":
            specs.insert(3, (6, False))
        _SP[tier] = gen.GraphSpace(specs)
    return _SP[tier]


def _exh(tier, lo, hi):
    for n, d, A, k in _space(tier).range(lo, hi):
        yield {"kind": "bd" if d else "bu", "W": A.astype(float), "order": gen.ORDERS[k % len(gen.ORDERS)], "drop": k % 3}


_D5 = gen.GraphSpace([(5, True)])


def _d5(tier, lo, hi):
    for k in range(lo, hi):
        n, d, A, _ = _D5.at(k * 8 + (k % 8))
        yield {"kind": "bd", "W": A.astype(float)}


def units(tier):
    us = [
        Unit("exhaustive-binary", check, count=lambda t: _space(t).total, cases=_exh, shards=(16, 32),
             space=_space(tier).describe() + " as 0/1 float64"),
        Unit("random-binary", check, strategy=lambda: cases(12, ["bu", "bd"]), examples=(3000, 96000), shards=(8, 16)),
        Unit("random-weighted", check, strategy=lambda: cases(10, ["wu", "wd"]), examples=(4000, 160000), shards=(8, 16)),
        Unit("random-signed", check, strategy=lambda: cases(10, ["sign"]), examples=(2000, 80000), shards=(8, 16)),
        Unit("random-n<=40", check, strategy=lambda: cases(40, ["wu", "bd", "bu", "wd"]), examples=(320, 3200), shards=(16, 16)),
        Unit("random-n>512", check, strategy=lambda: cases(700, ["bu", "wu"], nmin=513), examples=(16, 64), shards=(8, 16)),
        Unit("random-n>100", check, strategy=lambda: cases(130, ["wu", "bu", "wd", "bd", "wu"], nmin=101), examples=(160, 800), shards=(16, 16)),
    ]
    if tier == "thorough":
        us.append(Unit("sampled-digraphs-n5", check, count=lambda t: _D5.total // 8, cases=_d5, shards=(16, 32),
                       space="every 8th labelled digraph on 5 nodes: systematic sample, not exhaustive"))
    return us
