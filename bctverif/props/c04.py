"""C04 -- graph measures are equivariant under renumbering of nodes."""
import itertools

import numpy as np
from hypothesis import strategies as st

import bct

from .. import compare, gen
from ..core import Failure, Unit
from ..oracles import modularity as om

PROPERTY = "C04"
RULE = ("Cases = (measure row, matrix [, partition], permutations): a table of deterministic public measures, each with its argument kind and "
        "the shape class of every output (v per-node vector -> permuted; m per-pair matrix -> permuted on both axes; s scalar / d "
        "distribution -> unchanged; P labelling -> same co-membership). Graphs: random per kind plus structured families that stress "
        "tie-breaking and degenerate spectra (cycles, complete bipartite, stars, complete, paths, trees, barbells, disjoint equal copies, "
        "graphs with isolated nodes), labels shuffled. Permutations: all n! when n <= 4, three random ones beyond (n <= 9). Oracle = "
        "metamorphic relation f(A[p][:,p]) == f(A) re-indexed by p (integers exact, floats rtol 1e-9 / atol 1e-10, NaN == NaN; both sides "
        "raising the same exception type counts as consistent rejection, one side only is a failure). Non-trivial = the permutation is not "
        "an automorphism of the matrix AND the output is not constant over nodes; distinct by hash of (row, matrix, permutation).")
BOUNDS = {"n": "3..9 (all n! permutations for n<=4)", "rtol": 1e-9, "atol": 1e-10}
MIN_NONTRIVIAL = {"quick": 1500, "thorough": 15000}
RT, AT = 1e-9, 1e-10

# row -> (kind, callable, output shape spec).  spec: string of classes, one per output (single output: one char)
T = {}


def row(name, kind, spec, f):
    T[name] = (kind, f, spec)


row("degrees_und", "wu", "v", bct.degrees_und)
row("degrees_dir", "wd", "vvv", bct.degrees_dir)
row("strengths_und", "wu", "v", bct.strengths_und)
row("strengths_dir", "wd", "v", bct.strengths_dir)
row("strengths_und_sign", "sign", "vvss", bct.strengths_und_sign)
row("density_und", "wu", "sss", bct.density_und)
row("density_dir", "wd", "sss", bct.density_dir)
row("clustering_coef_bu", "bu", "v", bct.clustering_coef_bu)
row("clustering_coef_bd", "bd", "v", bct.clustering_coef_bd)
row("clustering_coef_wu", "wu", "v", bct.clustering_coef_wu)
row("clustering_coef_wd", "wd", "v", bct.clustering_coef_wd)
row("clustering_coef_wu_sign", "sign", "vv", lambda W: bct.clustering_coef_wu_sign(W.copy()))
row("transitivity_bu", "bu", "s", bct.transitivity_bu)
row("transitivity_bd", "bd", "s", bct.transitivity_bd)
row("transitivity_wu", "wu", "s", bct.transitivity_wu)
row("transitivity_wd", "wd", "s", bct.transitivity_wd)
row("distance_bin", "bd", "m", bct.distance_bin)
row("distance_wei", "len-d", "m-", bct.distance_wei)   # B (edge count of SOME shortest path) is tie-dependent by contract: not judged
row("distance_wei_floyd", "len-d", "m-", lambda W: bct.distance_wei_floyd(W)[:2])
row("distance_wei_floyd(inv)", "wd", "m-", lambda W: bct.distance_wei_floyd(W, transform="inv")[:2])
row("breadthdist", "bd", "mm", bct.breadthdist)
row("reachdist", "bd", "mm", bct.reachdist)
row("charpath", "bd", "ssvss", lambda W: bct.charpath(bct.distance_bin(W)))
row("efficiency_bin", "bu", "s", bct.efficiency_bin)
row("efficiency_bin(local)", "bu", "v", lambda W: bct.efficiency_bin(W, local=True))
row("efficiency_wei", "wu", "s", bct.efficiency_wei)
row("efficiency_wei(local)", "wu", "v", lambda W: bct.efficiency_wei(W, local=True))
row("efficiency_wei(original)", "wu", "v", lambda W: bct.efficiency_wei(W, local="original"))
row("rout_efficiency", "len-u", "smv", bct.rout_efficiency)
row("diffusion_efficiency", "wu-conn", "sm", bct.diffusion_efficiency)
row("mean_first_passage_time", "wu-conn", "m", bct.mean_first_passage_time)
row("resource_efficiency_bin", "bu-conn", "mm", lambda W: bct.resource_efficiency_bin(W, 0.5))
row("betweenness_bin", "bd", "v", bct.betweenness_bin)
row("betweenness_wei", "len-d", "v", bct.betweenness_wei)
row("edge_betweenness_bin", "bd", "mv", bct.edge_betweenness_bin)
row("edge_betweenness_wei", "len-d", "mv", bct.edge_betweenness_wei)
row("kcore_bu(2)", "bu", "ms", lambda W: bct.kcore_bu(W, 2))
row("kcore_bd(3)", "bd", "ms", lambda W: bct.kcore_bd(W, 3))
row("score_wu(1)", "wu", "ms", lambda W: bct.score_wu(W, 1.0))
row("kcoreness_centrality_bu", "bu", "vd", bct.kcoreness_centrality_bu)
row("kcoreness_centrality_bd", "bd", "vd", bct.kcoreness_centrality_bd)
row("rich_club_bu", "bu", "ddd", bct.rich_club_bu)
row("rich_club_bd", "bd", "ddd", bct.rich_club_bd)
row("rich_club_wu", "wu", "d", bct.rich_club_wu)
row("rich_club_wd", "wd", "d", bct.rich_club_wd)
row("assortativity_bin(0)", "bu", "s", lambda W: bct.assortativity_bin(W, 0))
row("assortativity_bin(1)", "bd", "s", lambda W: bct.assortativity_bin(W, 1))
row("assortativity_bin(2)", "bd", "s", lambda W: bct.assortativity_bin(W, 2))
row("assortativity_bin(3)", "bd", "s", lambda W: bct.assortativity_bin(W, 3))
row("assortativity_bin(4)", "bd", "s", lambda W: bct.assortativity_bin(W, 4))
row("assortativity_wei(0)", "wu", "s", lambda W: bct.assortativity_wei(W, 0))
row("local_assortativity_wu_sign", "sign", "vv", lambda W: bct.local_assortativity_wu_sign(W.copy()))
row("pagerank_centrality", "wd", "v", lambda W: bct.pagerank_centrality(W, 0.85))
row("pagerank_centrality(und)", "wu", "v", lambda W: bct.pagerank_centrality(W, 0.85))
row("eigenvector_centrality_und", "wu", "v", bct.eigenvector_centrality_und)
row("subgraph_centrality", "bu", "v", bct.subgraph_centrality)
row("matching_ind", "bd", "mmm", bct.matching_ind)
row("matching_ind_und", "bu", "m", bct.matching_ind_und)
row("gtom(1)", "bu", "m", lambda W: bct.gtom(W, 1))
row("gtom(2)", "bu", "m", lambda W: bct.gtom(W, 2))
row("gtom(3)", "bu", "m", lambda W: bct.gtom(W, 3))
row("gtom(4)", "bu-long", "m", lambda W: bct.gtom(W, 4))
row("gtom(5)", "bu-long", "m", lambda W: bct.gtom(W, 5))
row("gtom(6)", "bu-long", "m", lambda W: bct.gtom(W, 6))
row("edge_nei_overlap_bu", "bu", "m", lambda W: bct.edge_nei_overlap_bu(W)[0])
row("edge_nei_overlap_bd", "bd", "m", lambda W: bct.edge_nei_overlap_bd(W)[0])
row("flow_coef_bd", "bd", "vsv", bct.flow_coef_bd)
row("erange", "bd", "msms", bct.erange)
row("findwalks", "bd", "3sd", bct.findwalks)
row("get_components", "bu", "PD", bct.get_components)
row("number_of_components", "bu", "s", bct.number_of_components)
row("modularity_und(spectral)", "wu", "Ps", bct.modularity_und)
row("modularity_dir(spectral)", "wd", "Ps", bct.modularity_dir)
# partition-consuming measures: the partition is permuted alongside
TP = {
    "participation_coef": ("wu", "v", lambda W, ci: bct.participation_coef(W, ci)),
    "participation_coef(in)": ("wd", "v", lambda W, ci: bct.participation_coef(W, ci, degree="in")),
    "participation_coef_sign": ("sign", "vv", lambda W, ci: bct.participation_coef_sign(W, ci)),
    "module_degree_zscore": ("wu", "v", lambda W, ci: bct.module_degree_zscore(W, ci)),
    "module_degree_zscore(3)": ("wd", "v", lambda W, ci: bct.module_degree_zscore(W, ci, 3)),
    "diversity_coef_sign": ("sign", "vv", lambda W, ci: bct.diversity_coef_sign(W, ci)),
    "modularity_und(kci)": ("wu", "s", lambda W, ci: bct.modularity_und(W, 1, ci)[1]),
    "modularity_dir(kci)": ("wd", "s", lambda W, ci: bct.modularity_dir(W, 1, ci)[1]),
    "modularity_und_sign": ("sign", "s", lambda W, ci: bct.modularity_und_sign(W, ci)[1]),
}
SLOW = {"rich_club_bu", "rich_club_bd", "rich_club_wu", "rich_club_wd", "efficiency_wei(local)", "efficiency_wei(original)",
        "efficiency_bin(local)", "matching_ind", "erange", "rout_efficiency"}
# spectral bisection picks an arbitrary eigenvector sign/tie: a partition, when ambiguous, may legitimately differ -> compared only when unique
# rows whose value hinges on exact comparisons of route lengths: more cases (ties, one-ulp differences, parallel routes)
TIE_SENSITIVE = {"betweenness_wei", "edge_betweenness_wei", "distance_wei", "distance_wei_floyd", "rout_efficiency"}
SPECTRAL = {"modularity_und(spectral)", "modularity_dir(spectral)"}


def kf_eig_degenerate(failure):
    """KF-C04-1: eigenvector_centrality_und returns |v| of whatever basis vector the solver produced for the largest eigenvalue; when that
    eigenvalue is repeated (multiplicity >= 2, gap < 1e-9 -- only possible for disconnected graphs) the choice depends on node order."""
    return failure.case["row"] == "eigenvector_centrality_und" and failure.info.get("lambda_max_multiplicity", 1) >= 2


def kf_spectral_sign(failure):
    return False


KF_PREDICATES = {"kf_eig_degenerate": kf_eig_degenerate}


def _reindex(x, cls, p, inv):
    """what f(A) should look like after renumbering with p (new node k = old node p[k])"""
    x = np.asarray(x)
    if cls == "v":
        return x[p]
    if cls == "m":
        return x[np.ix_(p, p)]
    if cls == "3":
        return x[np.ix_(p, p)]
    return x


def _nonconstant(out, spec):
    outs = out if isinstance(out, tuple) else (out,)
    for o, c in zip(outs, spec):
        try:
            a = np.asarray(o, dtype=float)
        except Exception:
            continue
        if c == "v" and a.size and np.nanmax(a) != np.nanmin(a):
            return True
        if c in ("m", "3") and a.ndim >= 2:
            n = a.shape[0]
            off = ~np.eye(n, dtype=bool)
            vals = a[off] if a.ndim == 2 else a[off].ravel()
            fin = vals[np.isfinite(vals)]
            if fin.size and fin.max() != fin.min():
                return True
        if c == "P":
            return len(set(np.asarray(o).tolist())) > 1
    return False


def check(case, ctx):
    name = case["row"]
    W = gen.layout(np.array(case["W"]), case.get("order"))
    n = len(W)
    fails = []
    ctx.label("row:" + name.split("(")[0])
    ctx.label("family:" + case.get("family", "?"))
    if name in TP:
        kind, spec, f = TP[name]
        ci = np.array(case["ci"])
        call = lambda X, c: ctx.call(f, gen.layout(X.copy(), case.get("order")), c.copy())
    else:
        kind, f, spec = T[name]
        ci = None
        call = lambda X, c: ctx.call(f, gen.layout(X.copy(), case.get("order")))
    # the caller holds ONE array: the measure is evaluated on it, and the renumbered networks are built from that same array afterwards
    # (a routine that damages its argument returns a correct first value and spoils everything the caller derives from the array later)
    Wh = gen.layout(W.copy(), case.get("order"))
    o0 = ctx.call(f, Wh, ci.copy()) if ci is not None else ctx.call(f, Wh)
    if o0.status == "timeout":
        return fails
    perms = case["perms"]
    for p in perms:
        p = np.array(p, dtype=int)
        inv = np.argsort(p)
        Wp = Wh[np.ix_(p, p)]
        cp = None if ci is None else ci[p]
        op = call(Wp, cp)
        if op.status == "timeout":
            continue
        info = {}
        at_row = AT
        if name == "eigenvector_centrality_und":
            ev = np.linalg.eigvalsh(np.asarray(W, dtype=float))
            # conditioning of an eigenvector: round-off mixes in neighbouring eigenvectors in proportion eps * ||A|| / gap; with two nearly
            # (not exactly) equally dominant components the entries that should be 0 come out as ~1e-10 under some numberings
            gap = float(ev[-1] - ev[-2]) if len(ev) >= 2 else 0.0
            if gap > 0:
                at_row = max(AT, 256 * np.finfo(float).eps * float(np.max(np.abs(ev))) / gap)
            info["lambda_max_multiplicity"] = int(np.sum(ev > ev.max() - 1e-9 * min(1.0, float(np.max(np.abs(ev))) or 1.0)))
        if o0.ok != op.ok:
            a = "returned" if o0.ok else "raised %s" % o0.exc_name()
            b = "returned" if op.ok else "raised %s(%s)" % (op.exc_name(), str(op.exc)[:60])
            fails.append(Failure("%s:raises-for-one-numbering-only" % name, "original %s, renumbered (p=%s) %s" % (a, p.tolist(), b), case, info))
            return fails
        if not o0.ok:
            ctx.notes["both_raise:" + name] += 1
            if type(o0.exc) is not type(op.exc):
                fails.append(Failure("%s:different-exceptions" % name, "%s vs %s" % (o0.exc_name(), op.exc_name()), case, info))
                return fails
            continue
        outs0 = o0.value if isinstance(o0.value, tuple) else (o0.value,)
        outsp = op.value if isinstance(op.value, tuple) else (op.value,)
        if len(outs0) < len(spec) or len(outsp) < len(spec):
            fails.append(Failure("%s:fewer-outputs-than-documented" % name, "%d outputs" % len(outs0), case))
            return fails
        ambiguous = False
        for k, c in enumerate(spec):
            a, b = outs0[k], outsp[k]
            if c == "-":
                continue
            if c == "P":
                same = om.same_partition(np.asarray(a)[p], np.asarray(b)) if np.shape(a) == (n,) and np.shape(b) == (n,) else False
                if not same:
                    if name in SPECTRAL:
                        ambiguous = True     # bisection ties: another optimal split is admissible
                        ctx.notes["spectral-partition-differs(not judged)"] += 1
                        break
                    fails.append(Failure("%s:labelling-not-equivariant" % name, "output %d, p=%s: %s vs %s" % (k, p.tolist(), np.asarray(a)[p].tolist(), np.asarray(b).tolist()), case, info))
                    return fails
                continue
            if c == "D":      # distribution compared as a multiset
                d = compare.deep_equal(np.sort(np.asarray(a, dtype=float).ravel()), np.sort(np.asarray(b, dtype=float).ravel()), RT, AT)
            else:
                if c in ("v", "m", "3") and (np.ndim(a) == 0 or np.shape(a)[0] != n):
                    d = compare.deep_equal(a, b, RT, AT)
                else:
                    d = compare.deep_equal(_reindex(a, c, p, inv), np.asarray(b), RT, at_row, path="output%d" % k)
            if d:
                if ambiguous:
                    break
                fails.append(Failure("%s:not-equivariant" % name,
                                     "renumbering p=%s: %s (expected = original re-indexed, got = measure of renumbered network)" % (p.tolist(), d), case, info))
                return fails
        if not np.array_equal(Wp, W) and _nonconstant(o0.value, spec):
            ctx.mark_nontrivial({"row": name, "W": W, "p": p})
    # history: after the calls on the renumbered networks, the original network must give the original answer again
    # (a result cache keyed on shape / identity, or any other state kept between calls, would show here)
    o9 = call(Wh, ci)
    if o9.status != "timeout" and o0.status != "timeout":
        d, how = compare.outcomes_equal(o0, o9)
        if d:
            fails.append(Failure("%s:repeated-call-gives-different-result" % name, "first vs last call on the same network: %s" % d, case))
    return fails


# ----------------------------------------------------------------------
@st.composite
def graph(draw, kind, nmax):
    directed = kind in ("bd", "wd", "len-d")
    conn = kind.endswith("conn")
    if kind == "bu-long":
        # long sparse graphs (paths, caterpillars, trees + a chord): large diameters, so that multi-round
        # neighbourhood expansion (gtom with many steps) does not saturate
        n = draw(st.integers(6, 14))
        sub = draw(st.sampled_from(["path", "path", "tree", "ring"]))
        A = gen.path_adj(n) if sub == "path" else gen.ring_adj(n) if sub == "ring" else draw(gen.tree_chords_adj(n, max_chords=1))
        A = gen.apply_perm(A, draw(gen.perm(n)))
        return A.astype(float), "long-" + sub
    fam = draw(st.sampled_from(["er", "er", "structured", "structured", "tree", "tree", "core+pendants"]))
    if fam == "core+pendants":
        # a complete (reciprocally connected) core with a few pendant nodes: in+out degrees inside the core reach and exceed N
        c = draw(st.integers(3, max(3, nmax - 2)))
        A = gen.block_diag(gen.complete_adj(c), np.zeros((draw(st.integers(1, max(1, min(3, nmax - c)))),) * 2, dtype=bool)).copy()
        for v in range(c, len(A)):
            u = draw(st.integers(0, c - 1))
            A[u, v] = True
            if not directed or draw(st.booleans()):
                A[v, u] = True
        n = len(A)
        A = gen.apply_perm(A, draw(gen.perm(n)))
        if kind in ("bu", "bd", "bu-conn"):
            return A.astype(float), fam
        W = draw(gen.weights_for(A, "signed" if kind == "sign" else "dyadic", directed and not np.array_equal(A, A.T)))
        return W, fam
    if fam == "structured":
        A, sub = draw(gen.structured_adj(3, nmax))
        fam = sub
    elif fam == "tree":
        A = draw(gen.tree_chords_adj(draw(st.integers(3, nmax)), max_chords=2))
    else:
        A = draw(gen.er_adj(draw(st.integers(3, nmax)), directed))
    n = len(A)
    A = A.copy()
    if conn:
        for v in range(n - 1):
            A[v, v + 1] = A[v + 1, v] = True
        if fam in ("ring", "bipartite", "star", "path"):
            pass
    if directed and fam != "er":
        pr = gen.pairs(n, False)
        keep = draw(st.lists(st.integers(0, 3), min_size=len(pr), max_size=len(pr)))
        for (i, j), k in zip(pr, keep):
            if A[i, j]:
                if k == 1:
                    A[j, i] = False
                elif k == 2:
                    A[i, j] = False
    A = gen.apply_perm(A, draw(gen.perm(n)))
    if kind in ("bu", "bd", "bu-conn"):
        W = A.astype(float)
    elif kind == "sign":
        W = draw(gen.weights_for(A, "signed", False))
    elif kind in ("len-d", "len-u"):
        wk = draw(st.sampled_from(["tie", "ulp", "dyadic", "ulp"]))
        if wk == "ulp" and n >= 4 and draw(st.booleans()):
            # parallel two-leg routes between two nodes (0 and 1 before renumbering): first legs on the tie grid (often exactly equal),
            # second legs that differ from each other in the last bit only; plus whatever other connections the family drew
            W = draw(gen.weights_for(A, "tie", directed))
            W[0, 1] = W[1, 0] = 0.0
            for m_ in range(2, n):
                if draw(st.integers(0, 3)) > 0:
                    a = float(draw(st.sampled_from([1.0, 1.0, 2.0])))
                    b = float(draw(st.sampled_from([2.0, 1.0])))
                    b = [b, float(np.nextafter(b, np.inf)), float(np.nextafter(b, 0)), b][draw(st.integers(0, 3))]
                    W[0, m_], W[m_, 1] = a, b
                    if not directed:
                        W[m_, 0], W[1, m_] = a, b
            return gen.apply_perm(W, draw(gen.perm(n))), "parallel-routes/ulp"
        W = draw(gen.weights_for(A, "tie" if wk == "ulp" else wk, directed))
        if wk == "ulp":
            # routes whose lengths differ in the last bit only: unequal is unequal, under every numbering
            pr = [(i, j) for (i, j) in gen.pairs(n, directed) if W[i, j] != 0]
            bump = draw(st.lists(st.integers(0, 5), min_size=len(pr), max_size=len(pr)))      # most lengths stay on the tie grid
            for (i, j), b in zip(pr, bump):
                if b == 1:
                    W[i, j] = np.nextafter(W[i, j], np.inf)
                elif b == 2:
                    W[i, j] = np.nextafter(W[i, j], 0)
                if not directed:
                    W[j, i] = W[i, j]
            fam = fam + "/ulp"
    else:
        wk = draw(st.sampled_from(["dyadic", "float", "near-equal", "bin"]))
        if wk == "near-equal":
            # nearly regular: weights 1 + k 2^-20, strengths differ in the 7th digit
            if draw(st.booleans()):
                A = gen.ring_adj(n) if draw(st.booleans()) or n < 5 else (gen.ring_adj(n) | gen.apply_perm(gen.ring_adj(n), [(2 * i) % n if n % 2 else i for i in range(n)]))
                A = gen.apply_perm(A, draw(gen.perm(n)))
                fam = "regular"
            W = draw(gen.weights_for(A, "dyadic", directed))
            W = np.where(W != 0, 1.0 + (np.round(W * 8) % 8) * 2.0 ** -20, 0.0)
            fam = fam + "/near-equal"
        else:
            W = draw(gen.weights_for(A, wk, directed))
    if kind in ("wu", "wd", "sign", "wu-conn", "len-d", "len-u"):
        # the same network in another unit (exact for the dyadic weights): renumbering commutes with every measure in any unit
        W = W * draw(st.sampled_from([1.0, 2.0 ** -30, 1.0, 2.0 ** 20, 1.0]))
    return W, fam


@st.composite
def cases(draw, name, nmax):
    kind = TP[name][0] if name in TP else T[name][0]
    W, fam = draw(graph(kind, nmax))
    n = len(W)
    if n <= 4:
        perms = [list(p) for p in itertools.permutations(range(n))][1:]
    else:
        perms = [list(draw(st.permutations(list(range(n))))) for _ in range(3)]
    c = {"row": name, "W": W, "perms": perms, "family": fam, "order": draw(st.sampled_from(gen.ORDERS))}
    if name in TP:
        c["ci"] = draw(gen.partition(n))
    return c


def units(tier):
    us = []
    for name in list(T) + list(TP):
        slow = name in SLOW
        nmax = 6 if slow else 9
        ex = (100, 1000) if slow else ((800, 6000) if name in TIE_SENSITIVE else (300, 3000))
        us.append(Unit(name, check, strategy=(lambda nm=name, k=nmax: cases(nm, k)), examples=ex, shards=(1, 2)))
    return us
