"""C19 -- NBS reports true suprathreshold components and correct permutation p-values."""
import numpy as np
from hypothesis import strategies as st
from scipy import stats

import bct

from .. import gen
from ..core import Failure, Unit
from ..oracles import graph as og

PROPERTY = "C19"
RULE = ("Cases = (x, y, thresh, tail, paired, k, seed): subject stacks of symmetric n x n matrices, n=4..8, group sizes 3..7 (different for the "
        "unpaired test), values on a half-integer grid, planted effects of either sign on a random edge subset, optional constant edges (zero "
        "variance in both groups), thresh in {.5,1,2,3,-.5,-1}, the data also in other units (x 2^-70, 2^40, 2^-400; a few connections x 2^-70), with a common baseline of 65536, stored as float32; all three tails, k in 2..20. Oracle = scipy.stats t statistics (pooled two-sample / "
        "paired; zero pooled variance -> 0), BFS components of the suprathreshold graph, p = #(null >= size)/k recomputed from the returned "
        "null, and a recording RandomState passed as `seed` so that every null value can be recomputed from the relabelling actually drawn; "
        "metamorphic: swapping the groups with the mirrored tail and reordering subjects within a group leave the labelled components "
        "unchanged. Non-trivial = some but not all connections are suprathreshold and there are >= 2 components or a component with >= 2 "
        "connections; distinct by hash of the case.")
BOUNDS = {"n": "4..8 (null-rich unit: 7..10)", "group_size": "3..7", "k": "2..20 (null-rich unit: 15..30)"}
MIN_NONTRIVIAL = {"quick": 150, "thorough": 2000}


class Recorder(np.random.RandomState):
    """RandomState that records the relabellings nbs_bct draws (get_rng passes RandomState instances through)."""

    def __init__(self, seed):
        super().__init__(seed)
        self.log = []

    def permutation(self, x):
        r = super().permutation(x)
        self.log.append(("permutation", np.array(r, copy=True)))
        return r

    def rand(self, *a):
        r = super().rand(*a)
        self.log.append(("rand", np.array(r, copy=True)))
        return r


def _edges(n):
    return np.where(np.triu(np.ones((n, n)), 1))


def _tstats(X, Y, paired, tail):
    """X, Y: (m, nx), (m, ny). Returns the statistic compared with the threshold, per edge."""
    with np.errstate(all="ignore"):
        if paired:
            t = stats.ttest_rel(X, Y, axis=1).statistic
        else:
            t = stats.ttest_ind(X, Y, axis=1, equal_var=True).statistic
            # zero pooled variance -> statistic 0 (constant edges)
            v = ((X.shape[1] - 1) * X.var(axis=1, ddof=1) + (Y.shape[1] - 1) * Y.var(axis=1, ddof=1))
            t = np.where(v == 0, 0.0, t)
    t = np.asarray(t, dtype=float)
    if tail == "both":
        return np.abs(t)
    if tail == "left":
        return -t
    return t


def _components(n, ii, jj, supra):
    """labels per suprathreshold edge (component id by BFS) and sizes in edges"""
    A = np.zeros((n, n), dtype=bool)
    A[ii[supra], jj[supra]] = True
    A = A | A.T
    lab, m = og.components_und(A)
    lab = np.array(lab)
    edge_lab = lab[ii[supra]]
    sizes = {}
    for l in edge_lab:
        sizes[l] = sizes.get(l, 0) + 1
    return edge_lab, sizes


def _max_component(n, ii, jj, supra, ctx=None):
    if not np.any(supra):
        return 0
    edge_lab, sizes = _components(n, ii, jj, supra)
    if ctx is not None and len(sizes) >= 2:
        # measure how often the component with most nodes is not the one with most connections
        nodes = {}
        for l, a, b in zip(edge_lab, ii[supra], jj[supra]):
            nodes.setdefault(l, set()).update((int(a), int(b)))
        best_nodes = max(len(v) for v in nodes.values())
        cands = [l for l, v in nodes.items() if len(v) == best_nodes]
        if any(sizes[l] < max(sizes.values()) for l in cands):
            ctx.label("null-relabelling:most-nodes-component-is-not-most-connections")
    return max(sizes.values())


def _partition_of_edges(adj, ii, jj):
    """canonical form of the labelled components: frozenset of frozensets of edges"""
    groups = {}
    for a, b in zip(ii, jj):
        l = adj[a, b]
        if l != 0:
            groups.setdefault(l, set()).add((int(a), int(b)))
    return frozenset(frozenset(g) for g in groups.values())


def check(case, ctx):
    x = gen.layout(np.array(case["x"], dtype=float), case.get("order"))
    y = gen.layout(np.array(case["y"], dtype=float), case.get("order"))
    thresh, tail, paired, k, seed = case["thresh"], case["tail"], case["paired"], case["k"], case["seed"]
    n = x.shape[0]
    nx, ny = x.shape[2], y.shape[2]
    fails = []
    ctx.label("tail:" + tail)
    ctx.label("paired" if paired else "unpaired")
    ii, jj = _edges(n)
    X = np.array([x[:, :, s][ii, jj] for s in range(nx)]).T
    Y = np.array([y[:, :, s][ii, jj] for s in range(ny)]).T
    t = _tstats(X, Y, paired, tail)
    # statistics that are exactly 0 by rule (zero pooled variance in the unpaired test) are exact: against a threshold of exactly 0 they
    # do not "exceed" it; every other near-coincidence of statistic and threshold is a matter of round-off and not judged
    exact0 = np.zeros(len(t), dtype=bool)
    if not paired:
        v = ((X.shape[1] - 1) * X.var(axis=1, ddof=1) + (Y.shape[1] - 1) * Y.var(axis=1, ddof=1))
        exact0 = (v == 0)
    if np.any((np.abs(t - thresh) < 1e-9) & ~exact0):
        ctx.notes["skipped:statistic-within-1e-9-of-threshold"] += 1
        return fails
    if paired and np.any(np.isinf(t)):
        ctx.notes["skipped:paired-infinite-statistic(zero-variance-nonzero-mean-difference)"] += 1
        return fails
    supra = t > thresh

    dt = case.get("dtype", "float64")
    if dt != "float64":
        ctx.label("input-dtype:" + dt)
    if thresh < 0:
        ctx.label("negative-threshold")
    if case.get("unit", "1") != "1":
        ctx.label("unit:" + str(case.get("unit")))
    rec = Recorder(seed)
    o = ctx.call(bct.nbs_bct, gen.layout(x.astype(dt), case.get("order")), gen.layout(y.astype(dt), case.get("order")), thresh, k=k, tail=tail,
                 paired=paired, seed=rec, timeout=30)
    if o.status == "timeout":
        return fails
    if o.status == "reject":
        ctx.label("rejected")
        if np.any(supra):
            fails.append(Failure("nbs_bct:rejected-although-suprathreshold-connections-exist",
                                 "%d connections exceed the threshold by scipy's statistic, but %r" % (int(supra.sum()), o.exc), case))
        return fails
    if not o.ok:
        return [Failure("crash:nbs_bct:%s" % o.exc_name(), repr(o.exc)[:200], case)]
    try:
        pvals, adj, null = o.value
        pvals = np.asarray(pvals, dtype=float)
        adj = np.asarray(adj, dtype=float)
        null = np.asarray(null, dtype=float)
    except Exception:
        return [Failure("nbs_bct:bad-return", repr(o.value)[:200], case)]
    if not np.any(supra):
        fails.append(Failure("nbs_bct:returned-although-nothing-suprathreshold", "", case))
        return fails

    # --- observed components ---------------------------------------------
    marked = adj[ii, jj] != 0
    if adj.shape != (n, n) or not np.array_equal(adj, adj.T):
        fails.append(Failure("nbs_bct:adj-not-symmetric-nxn", "", case))
        return fails
    if not np.array_equal(marked, supra):
        e = int(np.argmax(marked != supra))
        fails.append(Failure("nbs_bct:marked-connections-differ-from-suprathreshold-set",
                             "connection (%d,%d): statistic %r vs threshold %r, marked=%s" % (ii[e], jj[e], t[e], thresh, bool(marked[e])), case))
        return fails
    edge_lab, sizes = _components(n, ii, jj, supra)
    got_lab = adj[ii[supra], jj[supra]]
    same_ref = edge_lab[:, None] == edge_lab[None, :]
    same_got = got_lab[:, None] == got_lab[None, :]
    if not np.array_equal(same_ref, same_got):
        fails.append(Failure("nbs_bct:component-labels-differ-from-bfs-components", "labels %s vs BFS %s" % (got_lab.tolist(), edge_lab.tolist()), case))
        return fails
    labs = sorted(set(int(l) for l in got_lab.tolist()))
    C = len(sizes)
    if labs != list(range(1, C + 1)) or np.any(got_lab != np.round(got_lab)):
        fails.append(Failure("nbs_bct:labels-not-1..C", "labels %s, %d components" % (labs, C), case))
        return fails
    if pvals.shape != (C,):
        fails.append(Failure("nbs_bct:pvals-length", "%d p-values for %d components" % (pvals.size, C), case))
        return fails
    if null.shape != (k,):
        fails.append(Failure("nbs_bct:null-length", "null has shape %s, k=%d" % (null.shape, k), case))
        return fails
    for c in range(C):
        size_c = int(np.sum(got_lab == c + 1))
        want = np.sum(null >= size_c) / k
        if not (abs(pvals[c] - want) <= 1e-12):
            fails.append(Failure("nbs_bct:pvalue-not-fraction-of-null-at-least-size",
                                 "component %d has %d connections; p=%r but #(null >= size)/k = %r (null=%s)" % (c + 1, size_c, pvals[c], want, null.tolist()), case))
            break

    # --- null distribution from the recorded relabellings --------------------
    draws = [r for kind, r in rec.log if kind == ("rand" if paired else "permutation")]
    usable = len(draws) == k and all((r.shape == (1, nx)) if paired else (r.shape == (nx + ny,)) for r in draws)
    if usable:
        D0 = np.hstack((X, Y))
        for u, r in enumerate(draws):
            if paired:
                sgn = np.sign(0.5 - r)
                d = D0 * np.hstack((sgn, sgn))
                tp = _tstats(d[:, :nx], d[:, -nx:], True, tail)
            else:
                d = D0[:, r]
                tp = _tstats(d[:, :nx], d[:, -ny:], False, tail)
            if np.any(np.abs(tp - thresh) < 1e-9) or (paired and np.any(np.isinf(tp))):
                continue
            want = _max_component(n, ii, jj, tp > thresh, ctx)
            if not (null[u] == want):
                fails.append(Failure("nbs_bct:null-value-not-largest-component-of-its-relabelling",
                                     "permutation %d: null=%r, largest suprathreshold component of that relabelling has %d connections" % (u, null[u], want), case))
                break
        ctx.notes["null-recomputed"] += 1
    else:
        # the draws did not have the expected shape (a refactor may draw relabellings differently): fall back to the SET of values
        # that genuine relabellings of subjects can produce -- every null value must be the largest component size under one of them
        ctx.notes["null-recorder-degraded"] += 1
        if np.any(null < 0) or np.any(null != np.round(null)) or np.any(null > len(ii)):
            fails.append(Failure("nbs_bct:null-values-out-of-range", "%s" % null.tolist(), case))
        else:
            import itertools
            D0 = np.hstack((X, Y))
            achievable = None
            if paired and nx <= 10:
                achievable = set()
                for bits in itertools.product((1.0, -1.0), repeat=nx):
                    sgn = np.array(bits)[None, :]
                    d = D0 * np.hstack((sgn, sgn))
                    tp = _tstats(d[:, :nx], d[:, -nx:], True, tail)
                    if np.any(np.abs(tp - thresh) < 1e-9) or np.any(np.isinf(tp)):
                        achievable = None
                        break
                    achievable.add(_max_component(n, ii, jj, tp > thresh))
            elif not paired:
                from math import comb
                if comb(nx + ny, nx) <= 2000:
                    achievable = set()
                    for grp in itertools.combinations(range(nx + ny), nx):
                        rest = [c for c in range(nx + ny) if c not in grp]
                        tp = _tstats(D0[:, list(grp)], D0[:, rest], False, tail)
                        if np.any(np.abs(tp - thresh) < 1e-9):
                            achievable = None
                            break
                        achievable.add(_max_component(n, ii, jj, tp > thresh))
            if achievable is not None:
                ctx.notes["null-checked-against-achievable-set"] += 1
                bad = [v for v in null.tolist() if v not in achievable]
                if bad:
                    fails.append(Failure("nbs_bct:null-value-not-achievable-by-any-relabelling-of-subjects",
                                         "null contains %s; relabellings of subjects can only give %s" % (sorted(set(bad)), sorted(achievable)), case))

    # --- metamorphic: swap groups + mirror tail; reorder subjects -------------
    ref = _partition_of_edges(adj, ii, jj)
    mirror = {"both": "both", "left": "right", "right": "left"}[tail]
    o2 = ctx.call(bct.nbs_bct, y.copy(), x.copy(), thresh, k=2, tail=mirror, paired=paired, seed=seed, timeout=30)
    if o2.ok:
        if _partition_of_edges(np.asarray(o2.value[1]), ii, jj) != ref:
            fails.append(Failure("nbs_bct:group-swap-with-mirrored-tail-changes-components", "", case))
    elif o2.status != "timeout":
        fails.append(Failure("nbs_bct:group-swap-with-mirrored-tail-raises", repr(o2.exc)[:200], case))
    px = np.array(case["perm_x"])
    py = px if paired else np.array(case["perm_y"])
    o3 = ctx.call(bct.nbs_bct, x[:, :, px].copy(), y[:, :, py].copy(), thresh, k=2, tail=tail, paired=paired, seed=seed, timeout=30)
    if o3.ok:
        if _partition_of_edges(np.asarray(o3.value[1]), ii, jj) != ref:
            fails.append(Failure("nbs_bct:subject-reordering-changes-components", "", case))
    elif o3.status != "timeout":
        fails.append(Failure("nbs_bct:subject-reordering-raises", repr(o3.exc)[:200], case))

    if 0 < supra.sum() < len(supra) and (C >= 2 or max(sizes.values()) >= 2):
        ctx.mark_nontrivial(case)
    if C >= 2:
        ctx.label("components>=2")
    ctx.target(C, "observed-components")
    return fails


@st.composite
def cases(draw, rich=False):
    n = draw(st.integers(7, 10)) if rich else draw(st.integers(4, 8))
    paired = draw(st.booleans())
    nx = draw(st.integers(3, 7))
    ny = nx if paired else draw(st.integers(3, 7))
    ii, jj = _edges(n)
    m = len(ii)
    base = draw(st.lists(st.integers(-3, 3), min_size=m, max_size=m))
    # planted effects on a subset of edges, either sign; some constant edges
    role = draw(st.lists(st.sampled_from(["null", "null", "zero", "up", "up", "down", "const", "null", "const-diff"]), min_size=m, max_size=m))

    def stack(k, shift_sign):
        noise = draw(st.lists(st.integers(-2, 2), min_size=m * k, max_size=m * k))
        Z = np.zeros((n, n, k))
        it = iter(noise)
        for e in range(m):
            for s in range(k):
                v = next(it)
                if role[e] == "zero":
                    val = 0.0           # a connection absent in every subject of both groups (sparse networks)
                elif role[e] == "const":
                    val = base[e] / 2.0
                elif role[e] == "const-diff":
                    # the same value in every subject of a group, another value in the other group (zero variance in both,
                    # e.g. a connection present in all patients and in no control)
                    val = base[e] / 2.0 + 2.0 * shift_sign
                else:
                    val = (base[e] + v) / 2.0
                    if role[e] == "up":
                        val += 2.0 * shift_sign
                    elif role[e] == "down":
                        val -= 2.0 * shift_sign
                Z[ii[e], jj[e], s] = Z[jj[e], ii[e], s] = val
        return Z
    x = stack(nx, 1)
    y = stack(ny, 0)
    perm_x = list(draw(st.permutations(list(range(nx)))))
    perm_y = list(draw(st.permutations(list(range(ny)))))
    # the same data in another unit (t statistics do not depend on the unit), a few connections in a much smaller unit than the rest,
    # a large common baseline, single-precision storage (all values stay exactly representable, so the float64 oracle sees the same numbers)
    unit = draw(st.sampled_from(["1", "1", "2^-70", "some-2^-70", "2^40", "2^-400", "baseline", "baseline+float32", "float32"]))
    dtype = "float64"
    if unit in ("2^-70", "2^40", "2^-400"):
        f = {"2^-70": 2.0 ** -70, "2^40": 2.0 ** 40, "2^-400": 2.0 ** -400}[unit]
        x, y = x * f, y * f
    elif unit == "some-2^-70":
        pick = draw(st.lists(st.booleans(), min_size=m, max_size=m))
        for e in range(m):
            if pick[e]:
                for Z in (x, y):
                    Z[ii[e], jj[e], :] *= 2.0 ** -70
                    Z[jj[e], ii[e], :] *= 2.0 ** -70
    elif unit.startswith("baseline"):
        off = ~np.eye(n, dtype=bool)
        # deviations of 1/128 on a baseline of 2^16: exactly the resolution of single precision there
        x[off] = 65536.0 + x[off] / 64.0
        y[off] = 65536.0 + y[off] / 64.0
    if unit.endswith("float32"):
        dtype = "float32"
    neg = [-1.0, -0.5]
    if rich:
        # many relabellings with several mid-sized components: mid threshold, many permutations
        return {"x": x, "y": y, "thresh": draw(st.sampled_from([1.0, 1.5, 2.0])), "tail": draw(st.sampled_from(["both", "both", "left", "right"])),
                "paired": paired, "k": draw(st.integers(15, 30)), "seed": draw(gen.seeds()), "perm_x": perm_x, "perm_y": perm_y,
                "order": draw(st.sampled_from(gen.ORDERS)), "unit": unit, "dtype": dtype}
    return {"x": x, "y": y, "thresh": draw(st.sampled_from([1.0, 0.5, 2.0, 3.0, -1.0, 0.0, 1.0, -0.5])), "tail": draw(st.sampled_from(["left", "both", "right"])),
            "paired": paired, "k": draw(st.integers(2, 20)), "seed": draw(gen.seeds()), "perm_x": perm_x, "perm_y": perm_y,
            "order": draw(st.sampled_from(gen.ORDERS)), "unit": unit, "dtype": dtype}


def units(tier):
    return [Unit("nbs_bct", check, strategy=cases, examples=(1600, 24000), shards=(16, 16)),
            Unit("nbs_bct-null-rich", check, strategy=lambda: cases(rich=True), examples=(800, 15000), shards=(16, 16))]
