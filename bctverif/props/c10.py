"""C10 -- weighted measures reduce to binary on 0/1 input, directed to undirected on symmetric input,
weight-blind routines ignore weights. Differential inside the library."""
import numpy as np
from hypothesis import strategies as st

import bct

from .. import gen, compare
from ..core import Failure, Unit
from . import c09

PROPERTY = "C10"
RULE = ("Cases = (class, matrix): 'bin-und' / 'bin-dir' 0/1 matrices (complete enumeration of labelled graphs/digraphs up to the stated n "
        "plus random), 'sym-w' symmetric weighted matrices (weights k/8 or floats in (0,1]) and 'w-dir' directed weighted matrices, all with "
        "empty diagonal; a few connections weaker than the rest by 2^-60; 0/1 matrices as float64 / int64 (and bool for the rows that only sum "
        "entries); layered networks of 130 nodes with 3^40 .. 2^65 shortest paths between two nodes. For every row of the pair table applicable to the class both routines are called on the same matrix (or on W and "
        "binarize(W)) and compared cell by cell (rtol 1e-10, NaN == NaN; a crash on one side only is a failure). Non-trivial = the graph has a "
        "triangle, an unreachable ordered pair or a pair with >= 2 shortest paths, and is neither empty nor complete; distinct by hash of (class, matrix).")
BOUNDS = {"exhaustive_quick": "graphs n<=5, digraphs n<=4", "exhaustive_thorough": "graphs n<=6, digraphs n<=4 + every 8th n=5", "random_n": "3..12", "rtol": 1e-10}
MIN_NONTRIVIAL = {"quick": 300, "thorough": 3000}


def _first(f):
    return lambda W: f(W)[0]


def _third(f):
    return lambda W: f(W)[2]


# (name, weighted/directed side, binary/undirected side, needs_undirected)
BIN_PAIRS = [
    ("clustering_coef_wu|bu", bct.clustering_coef_wu, bct.clustering_coef_bu, True),
    ("clustering_coef_wd|bd", bct.clustering_coef_wd, bct.clustering_coef_bd, False),
    ("transitivity_wu|bu", bct.transitivity_wu, bct.transitivity_bu, True),
    ("transitivity_wd|bd", bct.transitivity_wd, bct.transitivity_bd, False),
    ("distance_wei|bin", _first(bct.distance_wei), bct.distance_bin, False),
    ("betweenness_wei|bin", bct.betweenness_wei, bct.betweenness_bin, False),
    ("edge_betweenness_wei|bin", bct.edge_betweenness_wei, bct.edge_betweenness_bin, False),
    ("efficiency_wei|bin(global)", bct.efficiency_wei, bct.efficiency_bin, True),
    ("efficiency_wei|bin(local)", lambda W: bct.efficiency_wei(W, local=True), lambda W: bct.efficiency_bin(W, local=True), True),
    ("efficiency_wei('global')|bin(global)", lambda W: bct.efficiency_wei(W, local="global"), bct.efficiency_bin, True),
    ("efficiency_wei('local')|bin(local)", lambda W: bct.efficiency_wei(W, local="local"), lambda W: bct.efficiency_bin(W, local=True), True),
    ("efficiency_wei(1)|bin(1)(local)", lambda W: bct.efficiency_wei(W, local=1), lambda W: bct.efficiency_bin(W, local=1), True),
    ("efficiency_wei(np.True_)|bin(True)(local)", lambda W: bct.efficiency_wei(W, local=np.True_), lambda W: bct.efficiency_bin(W, local=True), True),
    ("strengths_und|degrees_und", bct.strengths_und, bct.degrees_und, True),
    ("strengths_dir|degrees_dir", bct.strengths_dir, _third(bct.degrees_dir), False),
    ("assortativity_wei|bin(0)", lambda W: bct.assortativity_wei(W, 0), lambda W: bct.assortativity_bin(W, 0), True),
]
SYM_BIN_PAIRS = [
    ("clustering_coef_bd|bu", bct.clustering_coef_bd, bct.clustering_coef_bu),
    ("transitivity_bd|bu", bct.transitivity_bd, bct.transitivity_bu),
]
SYM_W_PAIRS = [
    ("clustering_coef_wd|wu", bct.clustering_coef_wd, bct.clustering_coef_wu),
    ("transitivity_wd|wu", bct.transitivity_wd, bct.transitivity_wu),
    ("degrees_dir.in|degrees_und", lambda W: bct.degrees_dir(W)[0], bct.degrees_und),
    ("degrees_dir.out|degrees_und", lambda W: bct.degrees_dir(W)[1], bct.degrees_und),
]
# routines whose docstring says that weights are discarded / ignored
BLIND_DIR = [
    ("degrees_dir", bct.degrees_dir), ("jdegree", bct.jdegree), ("density_dir", bct.density_dir),
    ("edge_nei_overlap_bd", bct.edge_nei_overlap_bd), ("findwalks", bct.findwalks),
    ("assortativity_bin(1)", lambda W: bct.assortativity_bin(W, 1)),
    ("assortativity_bin(3)", lambda W: bct.assortativity_bin(W, 3)),
]
BLIND_UND = [
    ("degrees_und", bct.degrees_und), ("density_und", bct.density_und),
    ("edge_nei_overlap_bu", bct.edge_nei_overlap_bu),
    ("assortativity_bin(0)", lambda W: bct.assortativity_bin(W, 0)),
]
RT, AT = 1e-10, 1e-12


_ORDER = ["C"]
_DTYPE = ["float64"]
_ROWS = [None]
_HELD = {}      # per case: the ONE array of each storage type that the caller keeps and hands to every first-side routine in turn


def _pair(ctx, fails, case, name, f1, f2, X1, X2, store=None):
    dt = _DTYPE[0]
    if dt != "float64" and name.startswith("efficiency_wei"):
        dt = "float64"          # efficiency_wei inverts its argument: documented for weights, i.e. floating point
    if dt == "bool" and not name.startswith("strengths_"):
        dt = "float64"          # a logical array is a storage type of a 0/1 matrix only for routines that merely count / sum entries
    if _ROWS[0] is not None and not any(name.startswith(r) for r in _ROWS[0]):
        return
    # first side: the array the caller keeps (a routine that damages its argument answers correctly itself and spoils the routines that
    # come after it); second side: a fresh copy of the pristine matrix
    key = (id(X1), dt)
    if key not in _HELD:
        _HELD[key] = gen.layout(X1.astype(dt), _ORDER[0])
    o1 = ctx.call(f1, _HELD[key])
    o2 = ctx.call(f2, gen.layout(X2.astype(dt), _ORDER[0]))
    if store is not None:
        import copy as _copy
        store.append((name, f1, f2, X1, X2, dt, o1, o2, _copy.deepcopy((o1.value if o1.ok else None, o2.value if o2.ok else None))))
    diff, how = compare.outcomes_equal(o1, o2, RT, AT)
    ctx.notes[how] += 1
    if how == "both_raise":
        ctx.notes["both_raise:" + name] += 1
    if diff:
        fails.append(Failure("%s:%s" % (name, "one-side-raises" if how == "one_raises" else "results-differ"), diff, case))


def check(case, ctx):
    cls = case["class"]
    _ORDER[0] = case.get("order", "C")
    _ROWS[0] = case.get("rows")
    binary01 = bool(np.all((np.array(case["W"]) == 0) | (np.array(case["W"]) == 1)))
    _DTYPE[0] = case.get("dtype", "float64") if binary01 else "float64"
    _HELD.clear()
    ctx.label("dtype:" + _DTYPE[0])
    done = []
    W = gen.layout(np.array(case["W"], dtype=float), case.get("order"))
    n = len(W)
    fails = []
    ctx.label("class:" + cls)
    A = (W != 0)
    S = A | A.T
    has_tri = bool(np.trace(np.linalg.matrix_power(S.astype(int), 3)) > 0)
    from ..oracles import graph as og
    D = og.bfs_dist(A)
    off = ~np.eye(n, dtype=bool)
    unreach = bool(np.any(np.isinf(D) & off))
    P2 = A.astype(int) @ A.astype(int)
    tie = bool(np.any((D == 2) & (P2 >= 2) & off))
    m = int(A.sum())
    if (has_tri or unreach or tie) and 0 < m < n * (n - 1):
        ctx.mark_nontrivial({"class": cls, "W": W})
    if has_tri:
        ctx.label("has-triangle")
    if unreach:
        ctx.label("has-unreachable-pair")
    if tie:
        ctx.label("has-shortest-path-tie")

    sym = bool(np.array_equal(W, W.T))
    binary = bool(np.all((W == 0) | (W == 1)))
    # the weight-blind routines come first: they receive the array the caller keeps, and the weighted pairs after them must still see its weights
    if not binary:
        B = A.astype(float)
        for name, f in BLIND_DIR + (BLIND_UND if sym else []):
            _pair(ctx, fails, case, "blind:" + name, f, f, W, B, done)
    if binary:
        for name, fw, fb, need_und in BIN_PAIRS:
            if need_und and not sym:
                continue
            _pair(ctx, fails, case, name, fw, fb, W, W, done)
        if sym:
            for name, fd, fu in SYM_BIN_PAIRS:
                _pair(ctx, fails, case, name, fd, fu, W, W, done)
    if sym:
        for name, fd, fu in SYM_W_PAIRS:
            _pair(ctx, fails, case, name, fd, fu, W, W, done)
    if fails or not case.get("sandwich"):
        return fails
    # history: every routine is called again after a batch of unrelated library calls on matrices of the same size
    # ("disturbers", with non-default options and infinities); the answers must be exactly the first ones
    Dinf = np.where(np.isfinite(D), D, np.inf)
    for dist in (lambda: bct.charpath(Dinf.copy(), include_infinite=False), lambda: bct.charpath(Dinf.copy(), include_diagonal=True),
                 lambda: bct.threshold_proportional(W.copy(), 0.5), lambda: bct.get_components(np.maximum(W, W.T)),
                 lambda: bct.distance_wei_floyd(W.copy()), lambda: bct.binarize(W.copy()), lambda: bct.breadthdist(W.copy())):
        ctx.call(dist)
    # ... and on another network of the same size; what the caller still holds from the first calls must be what was returned then
    other = np.array(W.T[::-1, ::-1])
    for name, f1, f2, X1, X2, dt, o1, o2, then in done:
        for f in (f1, f2):
            ctx.call(f, gen.layout(other.astype(dt), _ORDER[0]))
    for name, f1, f2, X1, X2, dt, o1, o2, then in done:
        now = (o1.value if o1.ok else None, o2.value if o2.ok else None)
        if compare.deep_equal(now, then, 0.0, 0.0):
            fails.append(Failure("%s:result-held-by-caller-changed-by-a-later-call" % name,
                                 "values returned earlier differ from the copy taken when they were returned, after calls on another %d-node network: %s"
                                 % (n, compare.deep_equal(now, then, 0.0, 0.0)), case))
            return fails
    for name, f1, f2, X1, X2, dt, o1, o2, then in done:
        for side, f, X, o in (("first", f1, X1, o1), ("second", f2, X2, o2)):
            o9 = ctx.call(f, gen.layout(X.astype(dt), _ORDER[0]))
            d, how = compare.outcomes_equal(o, o9)
            if d:
                fails.append(Failure("%s:answer-changes-after-unrelated-calls" % name,
                                     "%s routine of the pair, same input, before vs after a batch of unrelated library calls: %s" % (side, d), case))
                return fails
    return fails


@st.composite
def cases(draw, nmax):
    cls = draw(st.sampled_from(["bin-und", "bin-dir", "sym-w", "w-dir"]))
    signed_rows = None
    directed = cls in ("bin-dir", "w-dir")
    A = draw(c09._adj(nmax, directed))
    if cls.startswith("bin"):
        W = A.astype(float)
    else:
        W = draw(gen.weights_for(A, draw(st.sampled_from(["dyadic", "float", "tie"])), directed))
        if cls == "sym-w" and draw(st.integers(0, 3)) == 0:
            # some negative weights: the directed and the undirected formula still have to agree on a symmetric matrix
            pr = [(i, j) for (i, j) in gen.pairs(len(W), False) if W[i, j] != 0]
            neg = draw(st.lists(st.booleans(), min_size=len(pr), max_size=len(pr)))
            for (i, j), b in zip(pr, neg):
                if b:
                    W[i, j] = W[j, i] = -W[i, j]
            signed_rows = ["clustering_coef_wd|wu", "transitivity_wd|wu", "degrees_dir."]
        if draw(st.integers(0, 2)) == 0:
            # a few connections weaker than the others by 18 orders of magnitude: still connections for every weight-blind routine
            pr = [(i, j) for (i, j) in gen.pairs(len(W), directed) if W[i, j] != 0]
            pick = draw(st.lists(st.integers(0, 2), min_size=len(pr), max_size=len(pr)))
            for (i, j), b in zip(pr, pick):
                if b == 0:
                    W[i, j] *= 2.0 ** -60
                    if not directed:
                        W[j, i] = W[i, j]
    rows = signed_rows
    if cls.startswith("bin") and draw(st.integers(0, 3)) == 0:
        # self-connections on a 0/1 matrix: irrelevant for every path-based pair (no shortest path between two nodes uses one)
        dg = draw(st.lists(st.booleans(), min_size=len(W), max_size=len(W)))
        for i, b in enumerate(dg):
            if b:
                W[i, i] = 1.0
        rows = ["distance_wei|bin", "betweenness_wei|bin", "edge_betweenness_wei|bin", "efficiency_wei|bin(global)", "efficiency_wei('global')|bin(global)"]
    return {"class": cls, "W": W, "order": draw(st.sampled_from(gen.ORDERS)), "dtype": draw(st.sampled_from(["int64", "float64", "bool"])),
            "sandwich": draw(st.integers(0, 2)) == 0 and rows is None, "rows": rows}


@st.composite
def layered_cases(draw):
    """source - L layers of k fully linked nodes - sink: k^L shortest paths between source and sink (beyond 2^63 for 3^40 and 2^64)"""
    k, L = draw(st.sampled_from([(3, 41), (2, 64), (3, 40), (2, 65), (4, 32)]))
    directed = draw(st.booleans())
    n = 2 + k * L
    A = np.zeros((n, n))
    layers = [[0]] + [[1 + l * k + q for q in range(k)] for l in range(L)] + [[n - 1]]
    for a, b in zip(layers, layers[1:]):
        for u in a:
            for v in b:
                A[u, v] = 1
                if not directed:
                    A[v, u] = 1
    if draw(st.booleans()):
        A = gen.apply_perm(A, draw(gen.perm(n)))
    return {"class": "bin-dir" if directed else "bin-und", "W": A, "order": draw(st.sampled_from(gen.ORDERS)), "dtype": draw(st.sampled_from(["float64", "int64"])),
            "sandwich": False, "rows": ["betweenness_wei|bin", "distance_wei|bin", "strengths_"]}


_SP = {}


def _space(tier):
    if tier not in _SP:
        specs = [(1, False), (2, False), (3, False), (4, False), (5, False), (2, True), (3, True), (4, True)]
        if tier == "thorough":
            specs.insert(4, (6, False))
        _SP[tier] = gen.GraphSpace(specs)
    return _SP[tier]


def _exh(tier, lo, hi):
    for n, d, A, k in _space(tier).range(lo, hi):
        yield {"class": "bin-dir" if d else "bin-und", "W": A.astype(float), "order": gen.ORDERS[k % len(gen.ORDERS)], "dtype": ["float64", "int64"][k % 2],
               "sandwich": k % 7 == 0}


_D5 = gen.GraphSpace([(5, True)])


def _d5(tier, lo, hi):
    for k in range(lo, hi):
        n, d, A, _ = _D5.at(k * 8 + (k % 8))
        yield {"class": "bin-dir", "W": A.astype(float)}


def units(tier):
    us = [
        Unit("exhaustive-binary", check, count=lambda t: _space(t).total, cases=_exh, shards=(16, 64),
             space=_space(tier).describe() + " as 0/1 float64"),
        Unit("random", check, strategy=lambda: cases(10), examples=(3000, 80000), shards=(8, 16)),
        Unit("random-n<=14", check, strategy=lambda: cases(14), examples=(600, 20000), shards=(8, 16)),
        Unit("random-n<=30", check, strategy=lambda: cases(30), examples=(40, 800), shards=(8, 16)),
        Unit("layered-many-shortest-paths", check, strategy=layered_cases, examples=(16, 64), shards=(4, 8)),
    ]
    if tier == "thorough":
        us.append(Unit("sampled-digraphs-n5", check, count=lambda t: _D5.total // 8, cases=_d5, shards=(16, 64),
                       space="every 8th labelled digraph on 5 nodes: systematic sample, not exhaustive"))
    return us
