"""C07 -- modularity optimisers never return a partition worse than their start."""
import numpy as np

from .. import modcases as mc
from ..core import Failure, Unit
from ..oracles import modularity as om

PROPERTY = "C07"
RULE = ("Cases = as C02 for the seven deterministic-gain optimisers (modularity_finetune_und/_dir/_und_sign, modularity_louvain_und/_dir/"
        "_und_sign, community_louvain with the modularity / negative_sym / negative_asym objectives); start = a given random partition with "
        "arbitrary labels where the routine accepts one, singletons otherwise; symmetric input for the _und routines, arbitrary for _dir and "
        "community_louvain. Oracle = Q recomputed from the definition: Q(result) >= Q(start) - 1e-9; hierarchical q list strictly increasing "
        "and each level's true Q not below the previous one's; feeding the output back as the start never lowers Q; and, through the "
        "BCTPY_VERIF per-move hook, every accepted move's claimed gain equals the exact change of Q (times the routine's normalisation), no accepted "
        "move lowers Q, and the returned partition is not worse than the state the accepted moves arrived at. "
        "Non-trivial = at least one move was accepted (result differs from start as a partition); distinct by hash of the case.")
BOUNDS = {"n": "3..12 quick, 3..20 thorough", "gamma": mc.GAMMAS, "tol": 1e-9}
MIN_NONTRIVIAL = {"quick": 400, "thorough": 4000}
TOL = 1e-9


def kf_louvain_dir(failure):
    """KF-C07-1/2/3: same root cause as KF-C02-1 (modularity_louvain_dir: stale matrix after the first level, in-strength table
    initialised from W instead of W.T, transposed node-to-module updates). Signature: routine is modularity_louvain_dir AND
    (the input is asymmetric OR a merge happened so that a later level ran on the stale matrix)."""
    c = failure.case
    return c["fn"] == "modularity_louvain_dir" and (failure.info.get("merged") or failure.info.get("asymmetric"))


KF_PREDICATES = {"kf_louvain_dir": kf_louvain_dir}


def _info(W, partitions):
    n = len(W)
    return {"asymmetric": bool(not np.array_equal(W, W.T)),
            "merged": bool(any(len(set(np.asarray(p).tolist())) < n for p in partitions))}


def check(case, ctx):
    name = case["fn"]
    W = np.array(case["W"], dtype=float)
    n = len(W)
    fails = []
    ctx.label("fn:" + name + (":" + case["objective"] if "objective" in case else ""))
    start = case.get("ci0")
    start = np.arange(n) + 1 if start is None else np.asarray(start)
    if case.get("ci0") is not None:
        ctx.label("given-start")
    if not np.array_equal(W, W.T):
        ctx.label("directed")
    o, rec = mc.call(case, ctx)
    if o.status == "timeout":
        return fails
    if not o.ok:
        return [Failure("crash:%s:%s" % (name, o.exc_name()), repr(o.exc)[:200], case,
                        {"directed": bool(not np.array_equal(W, W.T))})]
    try:
        ci, q = o.value
    except Exception:
        return [Failure("%s:bad-return" % name, repr(o.value)[:200], case)]
    hier = bool(case.get("hierarchy")) and name in ("modularity_louvain_und", "modularity_louvain_dir")
    q_start = mc.q_ref(case, start)
    if hier:
        levels = [np.asarray(x) for x in ci]
        qs = [float(x) for x in q]
        if any(l.shape != (n,) for l in levels):
            return [Failure("%s:bad-return" % name, "hierarchy level with wrong shape", case)]
        for h in range(1, len(qs)):
            if not (qs[h] > qs[h - 1]):
                fails.append(Failure("%s:hierarchy-q-not-strictly-increasing" % name, "q list %s" % qs, case))
                break
        prevq = q_start
        for h, c in enumerate(levels):
            t = mc.q_ref(case, c)
            if t < prevq - TOL:
                fails.append(Failure("%s:hierarchy-level-lowers-modularity" % name,
                                     "level %d has Q=%r, previous %r" % (h, t, prevq), case, _info(W, levels)))
                break
            prevq = t
        final = levels[-1] if levels else start
    else:
        final = np.asarray(ci)
        if final.shape != (n,):
            return [Failure("%s:bad-return" % name, "label vector shape %s" % (final.shape,), case)]
    q_final = mc.q_ref(case, final)
    if q_final < q_start - TOL:
        fails.append(Failure("%s:result-worse-than-start" % name,
                             "Q(start)=%r, Q(result)=%r (gamma=%s)" % (q_start, q_final, case["gamma"]), case,
                             _info(W, [final])))
    moved = not om.same_partition(final, start)
    ctx.target(rec.count, "accepted-moves")
    if moved:
        ctx.mark_nontrivial(case)

    # the start partition as a plain Python sequence instead of an array: same seeded call, same answer
    if case.get("ci0") is not None and not hier:
        other = dict(case)
        other["ci_as"] = "array" if case.get("ci_as") in ("list", "tuple") else "list"
        o3, _ = mc.call(other, ctx)
        if o3.ok:
            try:
                if not np.array_equal(np.asarray(o3.value[0]), final):
                    fails.append(Failure("%s:start-as-list-and-as-array-give-different-results" % name,
                                         "same arguments and seed, start partition once as ndarray and once as %s" % ("list" if other["ci_as"] == "list" else case.get("ci_as")), case))
            except Exception:
                pass
        elif o3.status != "timeout":
            fails.append(Failure("crash:%s(start as %s):%s" % (name, other["ci_as"], o3.exc_name()), repr(o3.exc)[:200], case))

    # re-feed: output as start never lowers Q
    if name in ("community_louvain", "modularity_finetune_und", "modularity_finetune_dir", "modularity_finetune_und_sign") and not hier:
        o2, _ = mc.call(case, ctx, ci0=final)
        if o2.ok:
            try:
                ci2 = np.asarray(o2.value[0])
                q2 = mc.q_ref(case, ci2)
                if q2 < q_final - TOL:
                    fails.append(Failure("%s:refeed-lowers-modularity" % name, "Q %r -> %r" % (q_final, q2), case))
            except Exception:
                pass
        elif o2.status not in ("timeout",):
            fails.append(Failure("crash:%s(refeed):%s" % (name, o2.exc_name()), repr(o2.exc)[:200], case))

    # step level: claimed gain vs exact change in Q
    if rec.events:
        ctx.hook_events += len(rec.events)
        scale = mc.gain_scale(case)
        if rec.count == len(rec.events) and not hier:
            # history invariant: what is returned is not worse than the state the accepted moves arrived at
            reached = mc.full_labels(rec.events[-1])
            if reached.shape == (n,):
                q_reached = mc.q_ref(case, reached)
                if q_final < q_reached - TOL:
                    fails.append(Failure("%s:returned-partition-worse-than-state-reached-by-accepted-moves" % name,
                                         "after the last accepted move Q=%r, returned partition has Q=%r" % (q_reached, q_final), case,
                                         _info(W, [final, reached])))
        for t, ev in enumerate(rec.events):
            before = mc.labels_before(ev)
            after = mc.full_labels(ev)
            if before.shape != (n,) or after.shape != (n,):
                ctx.notes["hook-labels-unusable"] += 1
                break
            dq = (mc.q_ref(case, after) - mc.q_ref(case, before)) * scale
            if dq < -1e-9 * abs(scale):
                fails.append(Failure("%s:step-accepted-move-lowers-modularity" % name,
                                     "accepted move #%d (node %d: module %d -> %d) changes Q x scale by %r" % (t + 1, ev["node"], ev["src"] + 1, ev["dst"] + 1, dq),
                                     case, _info(W, [final, before])))
                break
            if abs(dq - ev["gain"]) > 1e-9 * max(abs(scale), abs(ev["gain"]), abs(dq)):
                fails.append(Failure("%s:step-claimed-gain-differs-from-true-change" % name,
                                     "accepted move #%d (node %d: module %d -> %d): claimed gain %r, exact change in Q x scale = %r"
                                     % (t + 1, ev["node"], ev["src"] + 1, ev["dst"] + 1, ev["gain"], dq), case,
                                     _info(W, [final, before])))
                break
    return fails


@__import__("hypothesis").strategies.composite
def cases(draw, name, nmax):
    from hypothesis import strategies as st
    c = draw(mc.cases(name, nmax))
    while c.get("objective") == "potts":
        c = draw(mc.cases(name, nmax))
    return c


def _set_partitions(n):
    """all set partitions of range(n) as restricted-growth label vectors (labels 1..k)"""
    out = []

    def rec(i, cur, k):
        if i == n:
            out.append(list(cur))
            return
        for l in range(1, k + 2):
            cur.append(l)
            rec(i + 1, cur, max(k, l))
            cur.pop()
    rec(0, [], 0)
    return out


_EXH = {}


def _exh_list(tier):
    """(routine, matrix, start partition, seed) for every small graph x every start partition"""
    if tier in _EXH:
        return _EXH[tier]
    from .. import gen
    import numpy as np
    items = []
    und = [(3, False), (4, False)] + ([(5, False)] if tier == "thorough" else [])
    dire = [(3, True)] + ([(4, True)] if tier == "thorough" else [])
    seeds = [0, 1] if tier == "quick" else [0, 1, 2, 3]
    for n, d in und + dire:
        parts = _set_partitions(n)
        step = 1 if (n, d) != (4, True) else 5
        for idx in range(1, gen.n_graphs(n, d), step):
            A = gen.graph_from_index(n, idx, d).astype(float)
            fns = ["modularity_finetune_dir", "community_louvain"] if d else ["modularity_finetune_und", "community_louvain", "modularity_finetune_und_sign"]
            for fn in fns:
                for ci in parts:
                    for sd in seeds:
                        items.append((fn, A, ci, sd))
    _EXH[tier] = items
    return items


def _exh_cases(tier, lo, hi):
    import numpy as np
    for fn, A, ci, sd in _exh_list(tier)[lo:hi]:
        c = {"fn": fn, "W": A, "gamma": 1.0, "ci0": np.array(ci), "seed": sd}
        if fn == "community_louvain":
            c["objective"] = "modularity"
        if fn == "modularity_finetune_und_sign":
            c["qtype"] = "sta"
        yield c


def units(tier):
    nmax = 10 if tier == "quick" else 18
    us = [Unit("exhaustive-small-graphs-all-starts", check, count=lambda t: len(_exh_list(t)), cases=_exh_cases, shards=(16, 64),
               space="every labelled graph n<=4 (thorough: n<=5) and digraph n=3 (thorough: + every 5th n=4) with >= 1 edge x every set "
                     "partition as start x seeds {0,1} (thorough {0..3}) for finetune_und / finetune_und_sign / finetune_dir / community_louvain, gamma=1")]
    from hypothesis import strategies as st
    us.append(Unit("all-optimisers-n<=32", check, strategy=lambda: st.sampled_from(list(mc.OPTIMISERS)).flatmap(lambda nm: cases(nm, 32)),
                   examples=(120, 2400), shards=(12, 16)))
    for name in mc.OPTIMISERS:
        ex = (500, 6000) if name == "community_louvain" else (300, 4000)
        us.append(Unit(name, check, strategy=(lambda nm=name: cases(nm, nmax)), examples=ex, shards=(2, 8)))
    return us
