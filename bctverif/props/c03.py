"""C03 -- shortest-path distance matrices equal true minimum path lengths."""
import math
import operator
from fractions import Fraction

import numpy as np
from hypothesis import strategies as st

import bct

from .. import gen
from ..core import Failure, Unit
from ..oracles import graph as og

PROPERTY = "C03"
RULE = ("Cases = (kind, matrix): 'bin' 0/1 graphs (complete enumeration of labelled digraphs/graphs up to the stated n, "
        "plus random incl. int64 dtype), 'len' length matrices with lengths in {1,2,3} or k/8 (tie-rich, exact sums), "
        "'inv' weight matrices with power-of-two weights (exact reciprocals), 'log' weight matrices in (0,1] "
        "(small rationals incl. w=1 -> zero-length edges, or generic floats); directed and undirected, connected or not. "
        "Oracle = exact-rational Floyd-Warshall ((min,+), or (max,x) for 'log') / BFS; hop outputs must lie in the set of hop "
        "counts of exact minimum-length paths. Non-trivial = at least one unreachable ordered pair AND one pair at >= 2 hops; "
        "weighted kinds additionally need a pair with >= 2 distinct minimum-length paths. Distinct by hash of (kind, matrix).")
BOUNDS = {"exhaustive_quick": "digraphs n<=4, graphs n<=5", "exhaustive_thorough": "digraphs n<=5, graphs n<=7",
          "random_n": "2..12 quick, 2..30 thorough", "rtol_irrational": 1e-12}
# units additionally driven by libFuzzer coverage feedback through hypothesis.fuzz_one_input (bctverif/fuzz.py)
FUZZ_UNITS = {"quick": ["random-lengths"], "thorough": ["random-lengths"]}
MIN_NONTRIVIAL = {"quick": 300, "thorough": 3000}

INF = float("inf")


def _exact_to_float(D, fn=float):
    n = len(D)
    out = np.full((n, n), INF)
    for i in range(n):
        for j in range(n):
            if D[i][j] is not None:
                out[i, j] = fn(D[i][j])
    return out


def _cmp(name, got, want, case, fails, what, exact=True, offdiag_only=False, rtol=1e-12, atol=1e-12):
    got = np.asarray(got, dtype=float)
    n = len(want)
    if got.shape != want.shape:
        fails.append(Failure("%s:%s-shape" % (name, what), "shape %s" % (got.shape,), case))
        return
    mask = ~np.eye(n, dtype=bool) if offdiag_only else np.ones((n, n), dtype=bool)
    if exact:
        bad = (got != want) & mask
    else:
        with np.errstate(invalid="ignore"):
            close = np.isclose(got, want, rtol=rtol, atol=atol) | ((got == want))
        bad = (~close) & mask
    if np.any(bad):
        u, v = np.argwhere(bad)[0]
        fails.append(Failure("%s:%s-wrong" % (name, what),
                             "pair (%d,%d): returned %r, exact reference %r" % (u, v, got[u, v], want[u, v]), case))


def _hops_ok(name, H, hopsets, reach, case, fails, what):
    H = np.asarray(H, dtype=float)
    n = len(hopsets)
    for s in range(n):
        for t in range(n):
            if s == t or not reach[s, t]:
                continue
            if H[s, t] not in hopsets[s][t]:
                fails.append(Failure("%s:%s-not-a-shortest-path-hop-count" % (name, what),
                                     "pair (%d,%d): reported %r edges; minimum-length paths have %s edges"
                                     % (s, t, H[s, t], sorted(hopsets[s][t])), case))
                return


def _mean_stats(Dref):
    n = len(Dref)
    off = ~np.eye(n, dtype=bool)
    d = Dref[off]
    lam = float(np.mean(d)) if not np.any(np.isinf(d)) else INF
    with np.errstate(divide="ignore"):
        eff = float(np.mean(1.0 / d))
    return lam, eff


def _scalar(name, got, want, case, fails, what, rtol=1e-12):
    try:
        got = float(got)
    except Exception:
        fails.append(Failure("%s:%s-not-scalar" % (name, what), repr(got), case))
        return
    if got == want:
        return
    if math.isfinite(got) and math.isfinite(want) and abs(got - want) <= rtol * max(1.0, abs(want)):
        return
    fails.append(Failure("%s:%s-wrong" % (name, what), "returned %r, reference %r" % (got, want), case))


def _run(ctx, fails, case, fn, *a, **k):
    o = ctx.call(fn, *a, **k)
    if o.ok:
        return o.value
    if o.status != "timeout":
        tag = "%s" % fn.__name__ + ("(%s)" % k["transform"] if k.get("transform") else "")
        fails.append(Failure("crash:%s:%s" % (tag, o.exc_name()), "%r" % (o.exc,), case))
    return None


def _inplace_history(case, ctx, fails):
    """the SAME array object is edited in place (one node cut off) between two rounds of calls; the second answers must describe
    the edited matrix (a result cache keyed on object identity or shape would return the first ones)"""
    kind = case["kind"]
    cut = case.get("cut")
    W = np.array(case["W"], dtype=float)
    n = len(W)
    if cut is None or n <= cut or kind not in ("bin", "len"):
        return
    X = gen.layout(W.copy(), case.get("order"))
    fns = [("distance_wei", lambda M: bct.distance_wei(M)[0]), ("distance_wei_floyd", lambda M: bct.distance_wei_floyd(M)[0])]
    if kind == "bin":
        fns += [("distance_bin", bct.distance_bin), ("reachdist", lambda M: bct.reachdist(M)[1]), ("breadthdist", lambda M: bct.breadthdist(M)[1])]
    off = ~np.eye(n, dtype=bool)
    Dref0 = _exact_to_float(og.exact_sp(og.to_fraction_lengths(X)))
    for name, f in fns:
        o = ctx.call(f, X)
        if o.ok and isinstance(o.value, np.ndarray) and o.value.flags.writeable:
            # the caller post-processes the matrix it was given, in place; an equal network asked afterwards must get a true answer
            o.value[...] = -7
            o2 = ctx.call(f, X.copy())
            if o2.ok:
                D = np.asarray(o2.value, dtype=float)
                if D.shape != Dref0.shape or np.any((D != Dref0) & off):
                    fails.append(Failure("%s:answer-depends-on-what-the-caller-did-to-an-earlier-result" % name,
                                         "earlier result overwritten in place by the caller, same network asked again", case))
    X[cut, :] = 0
    X[:, cut] = 0
    De = og.exact_sp(og.to_fraction_lengths(X))
    Dref = _exact_to_float(De)
    for name, f in fns:
        o = ctx.call(f, X)
        if o.ok:
            D = np.asarray(o.value, dtype=float)
            if D.shape != Dref.shape or np.any((D != Dref) & off):
                fails.append(Failure("%s:stale-answer-after-in-place-edit" % name, "same array object, node %d cut off in place" % cut, case))


def _held_results_history(case, ctx, fails):
    """a caller keeps the matrices returned by one call while calling the library again on ANOTHER network of the same size;
    what it holds must not change (a routine that hands out an internal work buffer would overwrite it)"""
    import copy
    from .. import compare
    kind = case["kind"]
    W = np.array(case["W"], dtype=float)
    n = len(W)
    if n < 2:
        return
    tr = {"inv": "inv", "log": "log"}.get(kind)
    fns = [("distance_wei_floyd", lambda M: bct.distance_wei_floyd(M, transform=tr))]
    if kind in ("bin", "len"):
        fns.append(("distance_wei", bct.distance_wei))
    if kind == "bin":
        fns += [("distance_bin", bct.distance_bin), ("reachdist", bct.reachdist), ("breadthdist", bct.breadthdist)]
    # another network of the same size: the reversed numbering of the same one, with one connection removed
    W2 = W[::-1, ::-1].copy()
    nz = np.argwhere(W2 != 0)
    if len(nz):
        W2[nz[0][0], nz[0][1]] = 0
    for name, f in fns:
        o1 = ctx.call(f, gen.layout(W.copy(), case.get("order")))
        if not o1.ok:
            continue
        snap = copy.deepcopy(o1.value)
        ctx.call(f, gen.layout(W2.copy(), case.get("order")))
        ctx.call(f, W2.T.copy())
        d = compare.deep_equal(o1.value, snap, 0.0, 0.0)
        if d:
            fails.append(Failure("%s:earlier-result-changed-by-later-call" % name,
                                 "the value returned for one network changed while the routine was called on another network of the same size: %s" % d, case))


def check_large_bin(case, ctx):
    """0/1 networks of 260-530 nodes in which many walks of equal length join the same two nodes (hubs sharing 255..512 neighbours):
    the number of such walks reaches the wrap-around points of 8- and 16-bit counters. Reference: scipy's unweighted BFS."""
    from scipy.sparse.csgraph import shortest_path
    W = gen.layout(np.array(case["W"], dtype=float), case.get("order"))
    n = len(W)
    fails = []
    ctx.label("large-structured:" + case["family"])
    Dref = shortest_path(W, method="D", directed=True, unweighted=True)
    off = ~np.eye(n, dtype=bool)
    with np.errstate(divide="ignore"):
        eff_ref = float(np.mean(1.0 / Dref[off]))
    directed = not np.array_equal(W, W.T)
    D = _run(ctx, fails, case, bct.distance_bin, gen.layout(W.copy(), case.get("order")))
    if D is not None:
        D = np.asarray(D, dtype=float)
        if D.shape != Dref.shape or np.any((D != Dref) & off):
            u, v = np.argwhere((D != Dref) & off)[0]
            fails.append(Failure("distance_bin:distance-wrong", "pair (%d,%d) of a %d-node network: returned %r, BFS gives %r" % (u, v, n, D[u, v], Dref[u, v]), case))
        else:
            cp = _run(ctx, fails, case, bct.charpath, D)
            if cp is not None:
                _scalar("charpath", cp[1], eff_ref, case, fails, "efficiency")
    if not directed:
        e = _run(ctx, fails, case, bct.efficiency_bin, gen.layout(W.copy(), case.get("order")))
        if e is not None:
            _scalar("efficiency_bin", e, eff_ref, case, fails, "global")
    for name in ("breadthdist", "reachdist"):
        r = _run(ctx, fails, case, getattr(bct, name), gen.layout(W.copy(), case.get("order")))
        if r is not None:
            Dr = np.asarray(r[1], dtype=float)
            if Dr.shape != Dref.shape or np.any((Dr != Dref) & off):
                fails.append(Failure("%s:distance-wrong" % name, "%d-node network" % n, case))
    ctx.mark_nontrivial(case)
    return fails


@st.composite
def large_bin_cases(draw):
    m = draw(st.sampled_from([256, 512, 255, 257, 300, 511]))
    fam = draw(st.sampled_from(["two-hubs", "three-hubs", "relay-directed"]))
    hubs = 3 if fam == "three-hubs" else 2
    tail = draw(st.integers(0, 4))
    iso = draw(st.integers(0, 1))
    n = hubs + m + tail + iso
    A = np.zeros((n, n))
    mids = range(hubs, hubs + m)
    if fam == "relay-directed":
        for v in mids:
            A[0, v] = 1      # source -> m relays -> sink: exactly m walks of length 2
            A[v, 1] = 1
    else:
        for h in range(hubs):
            for v in mids:
                A[h, v] = A[v, h] = 1
    prev = 0
    for q in range(tail):   # a short path hanging off the first hub
        v = hubs + m + q
        A[prev, v] = 1
        if fam != "relay-directed":
            A[v, prev] = 1
        prev = v
    if draw(st.booleans()):
        A = gen.apply_perm(A, draw(gen.perm(n)))
    return {"kind": "bin-large", "W": A, "family": "%s-%d" % (fam, m), "order": draw(st.sampled_from(gen.ORDERS))}


def check(case, ctx):
    if case.get("kind") == "bin-large":
        return check_large_bin(case, ctx)
    fails = _check(case, ctx)
    if not fails:
        _inplace_history(case, ctx, fails)
    if not fails:
        _held_results_history(case, ctx, fails)
    return fails


def _check(case, ctx):
    kind = case["kind"]
    W = gen.layout(np.array(case["W"]), case.get("order"))
    n = len(W)
    fails = []
    ctx.label("layout:" + str(case.get("order", "C")))
    directed = not np.array_equal(W, W.T)
    off = ~np.eye(n, dtype=bool)
    ctx.label("kind:" + kind)
    ctx.label("directed" if directed else "undirected")

    # ---------------- reference --------------------------------------
    if kind == "bin":
        Dref = og.bfs_dist(W)
        reach = np.isfinite(Dref)
        hopsets = [[({int(Dref[s, t])} if reach[s, t] and s != t else set()) for t in range(n)] for s in range(n)]
        multi = True
        zero_edges = False
    else:
        if kind == "len":
            Lf = og.to_fraction_lengths(W)
            De = og.exact_sp(Lf)
            hopsets = og.hop_sets(Lf, De)
            Dref = _exact_to_float(De)
        elif kind == "inv":
            Lf = [[(1 / Fraction(float(W[i, j])) if (i != j and W[i, j] != 0) else None) for j in range(n)] for i in range(n)]
            De = og.exact_sp(Lf)
            hopsets = og.hop_sets(Lf, De)
            Dref = _exact_to_float(De)
        else:  # log: (max, x) semiring on exact rationals
            if "Wfrac" in case:
                Wf = [[(Fraction(*case["Wfrac"][i][j]) if case["Wfrac"][i][j] else None) for j in range(n)] for i in range(n)]
            else:
                Wf = [[(Fraction(float(W[i, j])) if (i != j and W[i, j] != 0) else None) for j in range(n)] for i in range(n)]
            De = og.exact_sp(Wf, combine=operator.mul, better=operator.gt, unit=Fraction(1))
            hopsets = og.hop_sets(Wf, De, combine=operator.mul)
            Dref = _exact_to_float(De, fn=lambda p: -math.log(p) if p != 1 else 0.0)
            Lf = Wf
        reach = np.isfinite(Dref)
        # multiplicity of shortest paths (for the non-trivial rule only)
        multi = any(len(hopsets[s][t]) > 1 for s in range(n) for t in range(n))
        if not multi and kind != "log":
            sig = og.count_sp(Lf, De) if all(l is None or l > 0 for row in Lf for l in row) else None
            multi = sig is not None and any(sig[s][t] > 1 for s in range(n) for t in range(n) if s != t)
        elif not multi:
            multi = True   # 'log': tie structure not measured by count_sp; rule falls back to reach/hops clause
        zero_edges = kind == "log" and any(l == 1 for row in Lf for l in row if l is not None)
    if zero_edges:
        ctx.label("zero-length-edges")
    unreachable = bool(np.any(~reach & off))
    far = any(min(hopsets[s][t]) >= 2 for s in range(n) for t in range(n) if s != t and hopsets[s][t])
    if unreachable:
        ctx.label("has-unreachable-pair")
    ctx.target(sum(len(hopsets[s][t]) > 1 for s in range(n) for t in range(n)), "pairs-with-tied-routes-of-different-hop-count")
    if unreachable and far and multi:
        ctx.mark_nontrivial({"kind": kind, "W": W})
    lam_ref, eff_ref = _mean_stats(Dref) if n >= 2 else (None, None)

    # ---------------- library ----------------------------------------
    if kind == "bin":
        Wf_ = W.astype(float) if W.dtype == bool else W
        D = _run(ctx, fails, case, bct.distance_bin, Wf_)
        if D is not None:
            _cmp("distance_bin", D, Dref, case, fails, "distance")
            if n >= 2:
                Dm = np.asarray(D, dtype=float)
                # the documented flags: means over the finite off-diagonal distances only / with the zero diagonal included
                cf = _run(ctx, fails, case, bct.charpath, Dm, include_infinite=False)     # (also a history: an earlier call with other flags
                fin = Dref[off & np.isfinite(Dref)]
                if cf is not None and fin.size:
                    _scalar("charpath(include_infinite=False)", cf[0], float(np.mean(fin)), case, fails, "lambda")
                    _scalar("charpath(include_infinite=False)", cf[1], float(np.mean(1.0 / fin)), case, fails, "efficiency")
                cd = _run(ctx, fails, case, bct.charpath, Dm, include_diagonal=True)
                if cd is not None and not np.any(np.isinf(Dref)):
                    _scalar("charpath(include_diagonal=True)", cd[0], float(np.mean(Dref)), case, fails, "lambda")
                cp = _run(ctx, fails, case, bct.charpath, Dm)                          # ... must not change what this call reports)
                if cp is not None:
                    _scalar("charpath", cp[0], lam_ref, case, fails, "lambda")
                    _scalar("charpath", cp[1], eff_ref, case, fails, "efficiency")
        r = _run(ctx, fails, case, bct.distance_wei, Wf_.astype(float))
        if r is not None:
            _cmp("distance_wei", r[0], Dref, case, fails, "distance")
            _hops_ok("distance_wei", r[1], hopsets, reach, case, fails, "B")
        r = _run(ctx, fails, case, bct.distance_wei_floyd, Wf_)
        if r is not None:
            _cmp("distance_wei_floyd", r[0], Dref, case, fails, "distance")
            _hops_ok("distance_wei_floyd", r[1], hopsets, reach, case, fails, "hops")
        for name in ("breadthdist", "reachdist"):
            r = _run(ctx, fails, case, getattr(bct, name), Wf_)
            if r is not None:
                _cmp(name, r[1], Dref, case, fails, "distance", offdiag_only=True)
                R = np.asarray(r[0])
                if R.shape != (n, n) or np.any((R != 0)[off] != reach[off]):
                    fails.append(Failure("%s:reachability-flag-wrong" % name, "R off-diagonal differs from finite(distance)", case))
        if n >= 2:
            r = _run(ctx, fails, case, bct.rout_efficiency, Wf_.astype(float))
            if r is not None:
                _scalar("rout_efficiency", r[0], eff_ref, case, fails, "GErout")
            if not directed:
                e = _run(ctx, fails, case, bct.efficiency_bin, Wf_)
                if e is not None:
                    _scalar("efficiency_bin", e, eff_ref, case, fails, "global")
                e = _run(ctx, fails, case, bct.efficiency_wei, Wf_.astype(float))
                if e is not None:
                    _scalar("efficiency_wei", e, eff_ref, case, fails, "global")
        return fails

    if kind == "len":
        r = _run(ctx, fails, case, bct.distance_wei, W)
        if r is not None:
            _cmp("distance_wei", r[0], Dref, case, fails, "distance")
            _hops_ok("distance_wei", r[1], hopsets, reach, case, fails, "B")
            if n >= 2:
                cp = _run(ctx, fails, case, bct.charpath, np.asarray(r[0], dtype=float))
                if cp is not None:
                    _scalar("charpath", cp[0], lam_ref, case, fails, "lambda")
                    _scalar("charpath", cp[1], eff_ref, case, fails, "efficiency")
        r = _run(ctx, fails, case, bct.distance_wei_floyd, W)
        if r is not None:
            _cmp("distance_wei_floyd", r[0], Dref, case, fails, "distance")
            _hops_ok("distance_wei_floyd", r[1], hopsets, reach, case, fails, "hops")
        if n >= 2:
            r = _run(ctx, fails, case, bct.rout_efficiency, W)
            if r is not None:
                _scalar("rout_efficiency", r[0], eff_ref, case, fails, "GErout")
        return fails

    if kind == "inv":
        r = _run(ctx, fails, case, bct.distance_wei_floyd, W, transform="inv")
        if r is not None:
            _cmp("distance_wei_floyd(inv)", r[0], Dref, case, fails, "distance")
            _hops_ok("distance_wei_floyd(inv)", r[1], hopsets, reach, case, fails, "hops")
        if n >= 2:
            r = _run(ctx, fails, case, bct.rout_efficiency, W, transform="inv")
            if r is not None:
                _scalar("rout_efficiency(inv)", r[0], eff_ref, case, fails, "GErout")
            if not directed and W.max() <= 1:
                e = _run(ctx, fails, case, bct.efficiency_wei, W)
                if e is not None:
                    _scalar("efficiency_wei", e, eff_ref, case, fails, "global")
        return fails

    # log
    r = _run(ctx, fails, case, bct.distance_wei_floyd, W, transform="log")
    if r is not None:
        _cmp("distance_wei_floyd(log)", r[0], Dref, case, fails, "distance", exact=False)
        # hop counts: tolerance-aware (floating-point may pick either of two mathematically tied routes,
        # or a route within round-off of the minimum)
        H = np.asarray(r[1], dtype=float)
        with np.errstate(divide="ignore"):
            L = np.where((W != 0) & off, -np.log(np.where(W != 0, W, 1.0)), INF)
        done = False
        for s in range(n):
            # zero-length edges (w = 1) allow minimum-length walks that repeat nodes: hop bound 2n
            best = og.hop_min_len(L, s, hmax=2 * n + 1)
            for t in range(n):
                if s == t or not reach[s, t]:
                    continue
                h = H[s, t]
                ok = (h == int(h)) and 1 <= h <= 2 * n and best[int(h), t] <= Dref[s, t] * (1 + 1e-9) + 1e-12
                if not ok:
                    fails.append(Failure("distance_wei_floyd(log):hops-not-a-shortest-path-hop-count",
                                         "pair (%d,%d): reported %r edges, no walk with that many edges is within 1e-9 of the minimum %r"
                                         % (s, t, h, Dref[s, t]), case))
                    done = True
                    break
            if done:
                break
    if n >= 2 and not zero_edges:
        r = _run(ctx, fails, case, bct.rout_efficiency, W, transform="log")
        if r is not None:
            _scalar("rout_efficiency(log)", r[0], eff_ref, case, fails, "GErout", rtol=1e-10)
    return fails


# ----------------------------------------------------------------------
POW2_LE1 = [1.0, 0.5, 0.25, 0.125]
POW2 = [1.0, 0.5, 2.0, 0.25, 4.0, 8.0]
RATS = [(1, 1), (1, 2), (1, 3), (1, 4), (1, 6), (2, 3), (3, 4)]


@st.composite
def _adj(draw, nmax, directed):
    fam = draw(st.sampled_from(["er", "er", "tree", "blocks", "ring"]))
    if fam == "er":
        n = draw(st.integers(2, nmax))
        A = draw(gen.er_adj(n, directed))
    elif fam == "tree":
        n = draw(st.integers(2, nmax))
        A = draw(gen.tree_chords_adj(n))
        if directed:   # orient some edges one way only
            pr = gen.pairs(n, False)
            keep = draw(st.lists(st.integers(0, 2), min_size=len(pr), max_size=len(pr)))
            for (i, j), k in zip(pr, keep):
                if A[i, j]:
                    if k == 1:
                        A[j, i] = False
                    elif k == 2:
                        A[i, j] = False
    elif fam == "blocks":
        m = draw(st.integers(1, max(1, nmax // 2)))
        m2 = draw(st.integers(1, max(1, nmax - m)))
        A = gen.block_diag(draw(gen.er_adj(m, directed, "medium")), draw(gen.er_adj(m2, directed, "medium")))
    else:
        n = draw(st.integers(3, max(3, nmax)))
        A = gen.ring_adj(n, directed=directed)
        k = draw(st.integers(0, 2))
        for _ in range(k):
            i, j = draw(st.integers(0, n - 1)), draw(st.integers(0, n - 1))
            if i != j:
                A[i, j] = True
                if not directed:
                    A[j, i] = True
    n = len(A)
    if n >= 2 and draw(st.booleans()):
        A = gen.apply_perm(A, draw(gen.perm(n)))
    return A


@st.composite
def cases(draw, nmax, kinds):
    kind = draw(st.sampled_from(kinds))
    directed = draw(st.booleans())
    A = draw(_adj(nmax, directed))
    n = len(A)
    pr = [(i, j) for (i, j) in gen.pairs(n, directed) if A[i, j]]
    m = len(pr)
    order = draw(st.sampled_from(gen.ORDERS))
    if kind == "bin":
        W = A.astype(float) if draw(st.integers(0, 3)) else A.astype(np.int64)
        return {"kind": kind, "W": W, "order": order, "cut": draw(st.integers(0, 2))}
    W = np.zeros((n, n))
    case = {"kind": kind, "order": order, "cut": draw(st.integers(0, 2))}
    if kind == "len":
        sub = draw(st.sampled_from(["tie", "mixed-int", "hair", "dyadic", "near-sym", "scaled"]))
        if sub == "tie":
            vals = [gen.TIE[k] for k in draw(st.lists(st.integers(0, 2), min_size=m, max_size=m))]
        elif sub == "hair":
            # routes that differ by a few parts in 10^10 next to links shorter than that difference (all dyadic: every sum is exact)
            vals = [gen.HAIR[k] for k in draw(st.lists(st.integers(0, len(gen.HAIR) - 1), min_size=m, max_size=m))]
        elif sub in ("mixed-int", "near-sym"):
            # lengths of very different magnitude, near-ties among the large ones (integers: every sum is exact)
            vals = [gen.MIXED_INT[k] for k in draw(st.lists(st.integers(0, len(gen.MIXED_INT) - 1), min_size=m, max_size=m))]
        else:
            vals = [gen.DYADIC[k] for k in draw(st.lists(st.integers(0, 7), min_size=m, max_size=m))]
            if sub == "scaled":
                sc = draw(st.sampled_from(gen.POW2_SCALES))
                vals = [v * sc for v in vals]
        case["sub"] = sub
    elif kind == "inv":
        pool = POW2_LE1 if draw(st.booleans()) else POW2
        vals = [pool[k % len(pool)] for k in draw(st.lists(st.integers(0, 5), min_size=m, max_size=m))]
    else:
        if draw(st.booleans()):
            idx = draw(st.lists(st.integers(0, len(RATS) - 1), min_size=m, max_size=m))
            vals = [RATS[k][0] / RATS[k][1] for k in idx]
            Wfrac = [[None] * n for _ in range(n)]
            for (i, j), k in zip(pr, idx):
                Wfrac[i][j] = list(RATS[k])
                if not directed:
                    Wfrac[j][i] = list(RATS[k])
            case["Wfrac"] = Wfrac
        else:
            vals = draw(st.lists(st.floats(min_value=0.01, max_value=1.0, allow_nan=False), min_size=m, max_size=m))
    for (i, j), v in zip(pr, vals):
        W[i, j] = v
        if not directed:
            W[j, i] = v
    if case.get("sub") == "near-sym":
        # a directed length matrix that is symmetric up to +-1 on its large entries (same support in both directions)
        W = np.maximum(W, W.T)
        bump = draw(st.lists(st.integers(-1, 1), min_size=n * (n - 1) // 2, max_size=n * (n - 1) // 2))
        for (i, j), b in zip(gen.pairs(n, False), bump):
            if W[i, j] >= 1000:
                W[j, i] = W[i, j] + b
    case["W"] = W
    return case


_SPACES = {}


def _space(tier):
    if tier not in _SPACES:
        if tier == "quick":
            specs = [(1, False), (2, False), (2, True), (3, True), (4, True), (5, False)]
        else:
            specs = [(1, False), (2, False), (2, True), (3, True), (4, True), (5, True), (5, False), (6, False), (7, False)]
        _SPACES[tier] = gen.GraphSpace(specs)
    return _SPACES[tier]


def _exh_cases(tier, lo, hi):
    for n, d, A, k in _space(tier).range(lo, hi):
        yield {"kind": "bin", "W": A.astype(float), "order": gen.ORDERS[k % len(gen.ORDERS)], "cut": (k % 3 if k % 4 == 0 else None)}


_WSP = {}


def _wspace(tier):
    if tier not in _WSP:
        specs = [(3, True), (4, False)] if tier == "quick" else [(3, True), (4, False), (5, False)]
        vals = (1, 2, 3) if tier == "quick" else (1, 2)
        if tier == "thorough":
            _WSP[tier] = [gen.WeightedSpace([(3, True), (4, False)], (1, 2, 3)), gen.WeightedSpace([(4, True)], (1, 2)), gen.WeightedSpace([(5, False)], (1, 2))]
        else:
            _WSP[tier] = [gen.WeightedSpace(specs, vals)]
    return _WSP[tier]


def _w_total(tier):
    return sum(sp.total for sp in _wspace(tier))


def _w_cases(tier, lo, hi):
    for k in range(lo, hi):
        for sp in _wspace(tier):
            if k < sp.total:
                n, d, W = sp.at(k)
                yield {"kind": "len", "W": W, "order": gen.ORDERS[k % len(gen.ORDERS)]}
                break
            k -= sp.total


def units(tier):
    big = 12 if tier == "quick" else 30
    return [
        Unit("large-structured-binary", check, strategy=large_bin_cases, examples=(40, 200), shards=(8, 16)),
        Unit("exhaustive-lengths", check, count=_w_total, cases=_w_cases, shards=(16, 64),
             space="; ".join(sp.describe() for sp in _wspace(tier)) + " used as length matrices (every tie pattern on these sizes)"),
        Unit("exhaustive-binary", check, count=lambda t: _space(t).total, cases=_exh_cases,
             shards=(16, 64), space=_space(tier).describe() + " as 0/1 float64"),
        Unit("random-binary", check, strategy=lambda: cases(big, ["bin"]), examples=(600, 8000), shards=(4, 16)),
        Unit("random-lengths", check, strategy=lambda: cases(10, ["len"]), examples=(1200, 16000), shards=(6, 16)),
        Unit("random-inv", check, strategy=lambda: cases(10, ["inv"]), examples=(800, 10000), shards=(4, 16)),
        Unit("random-log", check, strategy=lambda: cases(9, ["log"]), examples=(800, 10000), shards=(4, 16)),
        Unit("random-lengths-large", check, strategy=lambda: cases(big, ["len", "inv"]), examples=(200, 4000), shards=(4, 16)),
        Unit("random-n<=45", check, strategy=lambda: cases(45, ["bin", "len", "log"]), examples=(60, 1200), shards=(12, 16)),
    ]
