"""C02 -- community detectors return a valid partition and its true modularity."""
import numpy as np

from .. import modcases as mc
from ..core import Failure, Unit
from ..oracles import modularity as om

PROPERTY = "C02"
RULE = ("Cases = (routine, matrix, gamma, qtype/objective, start partition, seed, hierarchy flag) for community_louvain (modularity, potts, "
        "negative_sym, negative_asym), modularity_louvain_und/_dir/_und_sign, modularity_finetune_und/_dir/_und_sign, "
        "modularity_probtune_und_sign, modularity_und/_dir (spectral or with a given partition) and modularity_und_sign; matrices: planted "
        "partitions, ER, hierarchical blocks; binary / dyadic / signed-symmetric, directed where accepted, with and without self-loops and "
        "isolated nodes, positive total weight; gamma in {.5,.8,1,1.2,1.5}; all five qtypes; start partition None or random with arbitrary "
        "labels. Oracle = labels are integers forming exactly 1..k (every hierarchy level, each a coarsening of the previous) and the returned "
        "quality equals Q recomputed from the definition for that very partition (relative 1e-9). Non-trivial = the returned partition has "
        "2 <= k < n; distinct by hash of the case.")
BOUNDS = {"n": "3..12 quick, 3..20 thorough", "gamma": mc.GAMMAS, "rtol": 1e-9}
MIN_NONTRIVIAL = {"quick": 400, "thorough": 4000}


def _info(W, partitions):
    """root-cause signature data for the known-finding predicates"""
    n = len(W)
    return {"asymmetric": bool(not np.array_equal(W, W.T)),
            "merged": bool(any(len(set(np.asarray(p).tolist())) < n for p in partitions))}


def kf_louvain_dir(failure):
    """KF-C02-1/2: modularity_louvain_dir never replaces W by the aggregated matrix (so every level after the first works on a
    stale matrix) and initialises the in-strength table from W instead of W.T. Root-cause signature: the routine is
    modularity_louvain_dir AND (at least one merge happened, so a later level ran, OR the input is asymmetric)."""
    c = failure.case
    return c["fn"] == "modularity_louvain_dir" and (failure.info.get("merged") or failure.info.get("asymmetric"))


KF_PREDICATES = {"kf_louvain_dir": kf_louvain_dir}


def _close(a, b):
    return abs(a - b) <= 1e-9 * max(1.0, abs(b))


def check(case, ctx):
    name = case["fn"]
    W = np.array(case["W"], dtype=float)
    n = len(W)
    fails = []
    ctx.label("fn:" + name + (":" + case["objective"] if "objective" in case else ""))
    o, rec = mc.call(case, ctx)
    if o.status == "timeout":
        return fails
    if not o.ok:
        return [Failure("crash:%s:%s" % (name, o.exc_name()), repr(o.exc)[:200], case,
                        {"directed": bool(not np.array_equal(W, W.T))})]
    try:
        ci, q = o.value
    except Exception:
        return [Failure("%s:bad-return" % name, repr(o.value)[:200], case)]

    given = name in ("modularity_und", "modularity_dir", "modularity_und_sign") and case.get("ci0") is not None
    hier = bool(case.get("hierarchy")) and name in ("modularity_louvain_und", "modularity_louvain_dir")
    if hier:
        levels = [np.asarray(x) for x in ci]
        qs = [float(x) for x in q]
        if len(levels) != len(qs):
            fails.append(Failure("%s:hierarchy-lengths-differ" % name, "%d partitions, %d q values" % (len(levels), len(qs)), case))
            return fails
        if len(levels) >= 2:
            ctx.label("hierarchy>=2-levels")
        prev = None
        for h, (c, qq) in enumerate(zip(levels, qs)):
            bad = mc.valid_labels(c, n)
            if bad:
                fails.append(Failure("%s:hierarchy-level-invalid-labels" % name, "level %d: %s" % (h, bad), case))
                break
            want = mc.q_ref(case, c)
            if not _close(qq, want):
                fails.append(Failure("%s:hierarchy-q-not-modularity-of-its-partition" % name,
                                     "level %d: reported %r, Q(partition) = %r" % (h, qq, want), case, _info(W, levels)))
                break
            if prev is not None and not om.is_coarsening(prev, c):
                fails.append(Failure("%s:hierarchy-level-not-a-coarsening" % name, "level %d" % h, case))
                break
            prev = c
        if levels and 2 <= len(set(levels[-1].tolist())) < n:
            ctx.mark_nontrivial(case)
        return fails

    ci = np.asarray(ci)
    if given:
        # returns the caller's partition and that partition's modularity
        if name != "modularity_und_sign" and not np.array_equal(ci, case["ci0"]):
            fails.append(Failure("%s:given-partition-not-returned" % name, "", case))
        if ci.shape != (n,) or not om.same_partition(ci, case["ci0"]):
            fails.append(Failure("%s:given-partition-changed" % name, "", case))
            return fails
        want = mc.q_ref(case, np.asarray(case["ci0"]))
    else:
        bad = mc.valid_labels(ci, n)
        if bad:
            fails.append(Failure("%s:invalid-labels" % name, bad, case))
            return fails
        want = mc.q_ref(case, ci)
    if want is not None:
        try:
            qf = float(q)
        except Exception:
            fails.append(Failure("%s:q-not-scalar" % name, repr(q)[:100], case))
            return fails
        if not _close(qf, want):
            fails.append(Failure("%s:q-not-modularity-of-returned-partition" % name,
                                 "reported %r, Q recomputed from the definition for the returned partition = %r (gamma=%s%s)"
                                 % (qf, want, case["gamma"], ", qtype=" + case["qtype"] if "qtype" in case else ""), case,
                                 _info(W, [ci])))
    k = len(set(ci.tolist()))
    if 2 <= k < n:
        ctx.mark_nontrivial(case)
    if case["gamma"] != 1.0:
        ctx.label("gamma!=1")
    if not np.array_equal(W, W.T):
        ctx.label("directed")
    if np.any(np.diag(W) != 0):
        ctx.label("self-loops")
    return fails


def _any_routine(nmax):
    from hypothesis import strategies as st
    return st.sampled_from(list(mc.ROUTINES)).flatmap(lambda nm: mc.cases(nm, nmax))


def units(tier):
    from . import c07
    nmax = 10 if tier == "quick" else 18
    us = [Unit("exhaustive-small-graphs-all-starts", check, count=lambda t: len(c07._exh_list(t)), cases=c07._exh_cases, shards=(16, 64),
               space="every labelled graph n<=4 (thorough: n<=5) and digraph n=3 (thorough: + every 5th n=4) with >= 1 edge x every set "
                     "partition as start x seeds {0,1} (thorough {0..3}) for finetune_und / finetune_und_sign / finetune_dir / community_louvain, gamma=1")]
    us.append(Unit("all-routines-n<=32", check, strategy=lambda: _any_routine(32), examples=(120, 2400), shards=(12, 16)))
    for name in mc.ROUTINES:
        ex = (1500, 8000) if name == "community_louvain" else (700, 5000)
        us.append(Unit(name, check, strategy=(lambda nm=name: mc.cases(nm, nmax)), examples=ex, shards=(2, 8)))
    return us
