"""C08 -- betweenness counts exactly the shortest paths through each node and edge."""
from fractions import Fraction

import numpy as np
from hypothesis import strategies as st

import bct

from .. import gen
from ..core import Failure, Unit
from ..oracles import graph as og
from . import c03

PROPERTY = "C08"
RULE = ("Cases = (kind, matrix): 'bin' 0/1 graphs (complete enumeration of labelled digraphs/graphs up to the stated n plus "
        "random, float64 and int64) and 'len' length matrices with integer lengths {1,2,3} or dyadic k/8 (many exact ties, exact sums); "
        "directed and undirected, connected or not; lengths scattered around 1 (0.5, 1.5, ...); self-connections on some or all nodes. Oracle = brute-force exact-rational sigma(s,t), sigma(s,t|v), sigma(s,t|e) from "
        "the definition. Non-trivial = some ordered pair has >= 2 shortest paths AND some ordered pair is unreachable; distinct by hash of (kind, matrix).")
BOUNDS = {"exhaustive_quick": "digraphs n<=4, graphs n<=5", "exhaustive_thorough": "digraphs n<=5 (1/4 sample of n=5 digraphs), graphs n<=6",
          "random_n": "2..14", "rtol": 1e-9}
MIN_NONTRIVIAL = {"quick": 200, "thorough": 2000}


def _vec_close(a, b):
    a = np.asarray(a, dtype=float)
    b = np.asarray(b, dtype=float)
    return a.shape == b.shape and bool(np.all(np.isclose(a, b, rtol=1e-9, atol=1e-9)))


def check(case, ctx):
    cut = case.get("cut")
    W = np.array(case["W"], dtype=float)
    n = len(W)
    if cut is not None and cut % 2 == 1:
        # history: the routines have served a network of this size in another storage type before (0/1 support as int64 / bool);
        # work space kept between calls must not carry that type over to the length matrix judged below
        S = (W != 0)
        for X in (S.astype(np.int64), S):
            for f in (bct.betweenness_wei, bct.edge_betweenness_wei, bct.betweenness_bin, bct.edge_betweenness_bin):
                ctx.call(f, X.copy())
        ctx.label("history:integer-storage-first")
    fails = _check(case, ctx)
    if not fails and cut is not None and n >= 2:
        # history: what the caller still holds. Results are kept, the routines then serve another network of the same size, and the
        # kept arrays are compared with deep copies taken when they were returned (a routine handing out its work space passes every
        # call-then-compare check)
        import copy as _copy
        X = gen.layout(W.copy(), case.get("order"))
        held = []
        for f in (bct.betweenness_wei, bct.edge_betweenness_wei) + ((bct.betweenness_bin, bct.edge_betweenness_bin) if case["kind"] == "bin" else ()):
            o = ctx.call(f, X)
            if o.ok:
                held.append((f.__name__, o.value, _copy.deepcopy(o.value)))
        other = np.array(W.T[::-1, ::-1])        # another network of the same size and kind
        for f in (bct.betweenness_wei, bct.edge_betweenness_wei) + ((bct.betweenness_bin, bct.edge_betweenness_bin) if case["kind"] == "bin" else ()):
            ctx.call(f, other.copy())
        for name, now, then in held:
            a = now if isinstance(now, tuple) else (now,)
            b = then if isinstance(then, tuple) else (then,)
            if any(not np.array_equal(np.asarray(x), np.asarray(y), equal_nan=True) for x, y in zip(a, b)):
                fails.append(Failure("%s:result-held-by-caller-changed-by-a-later-call" % name,
                                     "arrays returned earlier differ from the copy taken when they were returned, after calls on another %d-node network" % n, case))
                break
    if not fails and cut is not None and n > cut:
        # history: the SAME array object, edited in place (one node cut off), handed in again
        X = gen.layout(W.copy(), case.get("order"))
        fns = [bct.betweenness_wei, lambda M: bct.edge_betweenness_wei(M)[1]]
        if case["kind"] == "bin":
            fns += [bct.betweenness_bin, lambda M: bct.edge_betweenness_bin(M)[1]]
        for f in fns:
            ctx.call(f, X)
        X[cut, :] = 0
        X[:, cut] = 0
        BCx = og.betweenness_exact(og.to_fraction_lengths(X))[0]
        BC = np.array([float(x) for x in BCx])
        for f in fns:
            o = ctx.call(f, X)
            if o.ok and not _vec_close(o.value, BC):
                fails.append(Failure("betweenness:stale-answer-after-in-place-edit", "same array object, node %d cut off in place" % cut, case))
                break
    return fails


def _check(case, ctx):
    kind = case["kind"]
    W = gen.layout(np.array(case["W"]), case.get("order"))
    n = len(W)
    fails = []
    off = ~np.eye(n, dtype=bool)
    Wfl = gen.layout(W.astype(float), case.get("order"))
    Lf = og.to_fraction_lengths(Wfl)
    BCx, EBCx, D, sig = og.betweenness_exact(Lf)
    BC = np.array([float(x) for x in BCx])
    EBC = np.array([[float(x) for x in row] for row in EBCx])
    ties = any(sig[s][t] >= 2 for s in range(n) for t in range(n) if s != t)
    unreach = any(D[s][t] is None for s in range(n) for t in range(n) if s != t)
    ctx.label("kind:" + kind)
    if ties:
        ctx.label("has-ties")
    if unreach:
        ctx.label("has-unreachable-pair")
    if not np.array_equal(W, W.T):
        ctx.label("directed")
    ctx.target(sum(sig[s][t] >= 2 for s in range(n) for t in range(n) if s != t), "pairs-with-several-shortest-paths")
    if ties and unreach:
        ctx.mark_nontrivial({"kind": kind, "W": W})

    def run(fn, X):
        o = ctx.call(fn, X)
        if o.ok:
            return o.value
        if o.status != "timeout":
            fails.append(Failure("crash:%s:%s" % (fn.__name__, o.exc_name()),
                                 "%r (graph has unreachable pair: %s)" % (o.exc, unreach), case, {"unreachable": unreach}))
        return None

    def node(name, got):
        if not _vec_close(got, BC):
            got = np.asarray(got, dtype=float)
            v = int(np.argmax(~np.isclose(got, BC, rtol=1e-9, atol=1e-9))) if got.shape == BC.shape else -1
            fails.append(Failure("%s:node-betweenness-wrong" % name,
                                 "node %d: returned %r, definition gives %r" % (v, got[v] if v >= 0 else got, BC[v] if v >= 0 else BC), case))

    def edge(name, got):
        got = np.asarray(got, dtype=float)
        if got.shape != EBC.shape or not np.all(np.isclose(got, EBC, rtol=1e-9, atol=1e-9)):
            bad = np.argwhere(~np.isclose(got, EBC, rtol=1e-9, atol=1e-9)) if got.shape == EBC.shape else [[-1, -1]]
            u, v = bad[0]
            fails.append(Failure("%s:edge-betweenness-wrong" % name,
                                 "edge (%d,%d): returned %r, definition gives %r" % (u, v, got[u, v] if u >= 0 else got.shape, EBC[u, v] if u >= 0 else EBC.shape), case))

    if kind == "bin":
        X = W if W.dtype != bool else Wfl
        r = run(bct.betweenness_bin, X)
        if r is not None:
            node("betweenness_bin", r)
            Dm = og.bfs_dist(W)
            fin = np.isfinite(Dm) & off
            want = float(np.sum(Dm[fin] - 1))
            if abs(float(np.sum(r)) - want) > 1e-9 * max(1.0, want):
                fails.append(Failure("betweenness_bin:sum-not-total-of-(d-1)", "sum %r vs %r" % (float(np.sum(r)), want), case))
        r = run(bct.edge_betweenness_bin, X)
        if r is not None:
            edge("edge_betweenness_bin", r[0])
            node("edge_betweenness_bin", r[1])
            Dm = og.bfs_dist(W)
            fin = np.isfinite(Dm) & off
            want = float(np.sum(Dm[fin]))
            if abs(float(np.sum(r[0])) - want) > 1e-9 * max(1.0, want):
                fails.append(Failure("edge_betweenness_bin:sum-not-total-of-d", "sum %r vs %r" % (float(np.sum(r[0])), want), case))
    r = run(bct.betweenness_wei, Wfl)
    if r is not None:
        node("betweenness_wei", r)
    r = run(bct.edge_betweenness_wei, Wfl)
    if r is not None:
        edge("edge_betweenness_wei", r[0])
        node("edge_betweenness_wei", r[1])
    return fails


@st.composite
def cases(draw, nmax, kinds):
    special = draw(st.integers(0, 9))
    if special == 0 and "bin" in kinds:
        # nearly complete 0/1 network: a few disjoint connections removed, self-connections on the nodes that lost one (or on the others):
        # row counts that include the diagonal look like those of a complete network
        n = draw(st.integers(4, min(nmax, 9)))
        A = gen.complete_adj(n).astype(float)
        pm = list(draw(st.permutations(list(range(n)))))
        k = draw(st.integers(1, n // 2))
        lost = set()
        directed = draw(st.booleans())
        for q in range(k):
            a, b = pm[2 * q], pm[2 * q + 1]
            A[a, b] = 0
            lost.add(a)
            if not directed:
                A[b, a] = 0
                lost.add(b)
        on_lost = draw(st.booleans())
        for v in range(n):
            if (v in lost) == on_lost:
                A[v, v] = 1
        return {"kind": "bin", "W": A, "order": draw(st.sampled_from(gen.ORDERS)), "cut": None}
    if special == 1 and "len" in kinds:
        # a length matrix without a single zero entry (every pair connected, every node with a self-connection) and two length values
        n = draw(st.integers(3, min(nmax, 8)))
        lo, hi = draw(st.sampled_from([(1.0, 3.0), (0.5, 2.0), (1.0, 2.0), (2.0, 8.0)]))
        pick = draw(st.lists(st.booleans(), min_size=n * n, max_size=n * n))
        W = np.where(np.array(pick).reshape(n, n), lo, hi)
        for i in range(n):          # a short ring, so that some two-step routes beat direct connections
            W[i, (i + 1) % n] = lo
        if draw(st.booleans()):
            W = np.minimum(W, W.T)
        return {"kind": "len", "W": W, "order": draw(st.sampled_from(gen.ORDERS)), "cut": None}
    c = draw(c03.cases(nmax, kinds))
    W = np.array(c["W"])
    n = len(W)
    if c["kind"] == "len" and draw(st.integers(0, 3)) == 0:
        # lengths scattered around 1 (0.5, 1.5, ...): their total can equal their number although none of them is 1
        sym = bool(np.array_equal(W, W.T))
        pr = [(i, j) for (i, j) in gen.pairs(n, not sym) if W[i, j] != 0]
        pick = draw(st.lists(st.sampled_from([0.5, 1.5, 1.0, 0.5, 1.5, 2.0, 0.25, 1.75]), min_size=len(pr), max_size=len(pr)))
        W = W.astype(float)
        for (i, j), v in zip(pr, pick):
            W[i, j] = v
            if sym:
                W[j, i] = v
    if draw(st.integers(0, 2)) == 0 and n:
        # self-connections: no shortest path between two different nodes uses one, so nothing may change
        dg = draw(st.lists(st.integers(0, 2), min_size=n, max_size=n))
        W = W.astype(float) if c["kind"] == "len" else W.copy()
        for i, v in enumerate(dg):
            if v:
                W[i, i] = 1 if c["kind"] == "bin" else [0.5, 3.0][v - 1]
        if all(dg) and draw(st.booleans()):
            pass
    return {"kind": c["kind"], "W": W, "order": c.get("order", "C"), "cut": c.get("cut")}


_SPACES = {}


def _space(tier):
    if tier not in _SPACES:
        if tier == "quick":
            specs = [(1, False), (2, False), (2, True), (3, True), (4, True), (5, False)]
        else:
            specs = [(1, False), (2, False), (2, True), (3, True), (4, True), (5, False), (6, False)]
        _SPACES[tier] = gen.GraphSpace(specs)
    return _SPACES[tier]


def _exh_cases(tier, lo, hi):
    for n, d, A, k in _space(tier).range(lo, hi):
        yield {"kind": "bin", "W": A.astype(float)}


_D5 = gen.GraphSpace([(5, True)])


def _d5_count(tier):
    return _D5.total // 4


def _d5_cases(tier, lo, hi):
    for k in range(lo, hi):
        n, d, A, _ = _D5.at(k * 4 + (k % 4))
        yield {"kind": "bin", "W": A.astype(float)}


def check_big(case, ctx):
    """Large, heavily tied structures (layered graphs with astronomically many equal-length shortest paths; long chains of cliques).
    The full brute-force oracle is too slow here, so this unit checks the cheap consequences of the definition that the property
    itself states: node values sum to the total of (distance - 1), connection values to the total of distances, nothing is negative,
    the node vectors of the edge routines equal the node routines', and the weighted routines agree with the binary ones."""
    layers, width = case["layers"], case["width"]
    n = layers * width
    A = np.zeros((n, n))
    for l in range(layers - 1):
        a = slice(l * width, (l + 1) * width)
        b = slice((l + 1) * width, (l + 2) * width)
        A[a, b] = 1
        if not case["directed"]:
            A[b, a] = 1
    fails = []
    D = og.bfs_dist(A)
    off = ~np.eye(n, dtype=bool)
    fin = np.isfinite(D) & off
    want_bc = float(np.sum(D[fin] - 1))
    want_ebc = float(np.sum(D[fin]))
    ctx.mark_nontrivial(case)
    res = {}
    for name, f in (("betweenness_bin", bct.betweenness_bin), ("betweenness_wei", bct.betweenness_wei),
                    ("edge_betweenness_bin", bct.edge_betweenness_bin), ("edge_betweenness_wei", bct.edge_betweenness_wei)):
        o = ctx.call(f, A.copy(), timeout=60)
        if o.ok:
            res[name] = o.value
        elif o.status != "timeout":
            fails.append(Failure("crash:%s:%s" % (name, o.exc_name()), repr(o.exc)[:200], case))
    for name in ("betweenness_bin", "betweenness_wei"):
        if name in res:
            bc = np.asarray(res[name], dtype=float)
            if np.any(bc < -1e-9) or not np.isclose(bc.sum(), want_bc, rtol=1e-9):
                fails.append(Failure("%s:sum-not-total-of-(d-1)" % name, "sum %r (min %r) vs %r on a %dx%d layered graph" % (bc.sum(), bc.min(), want_bc, layers, width), case))
    for name in ("edge_betweenness_bin", "edge_betweenness_wei"):
        if name in res:
            ebc, bc = np.asarray(res[name][0], dtype=float), np.asarray(res[name][1], dtype=float)
            if np.any(ebc < -1e-9) or not np.isclose(ebc.sum(), want_ebc, rtol=1e-9):
                fails.append(Failure("%s:sum-not-total-of-d" % name, "sum %r (min %r) vs %r" % (ebc.sum(), ebc.min(), want_ebc), case))
            ref = res.get("betweenness_bin")
            if ref is not None and not np.allclose(bc, np.asarray(ref, dtype=float), rtol=1e-9, atol=1e-9):
                fails.append(Failure("%s:node-vector-differs-from-node-routine" % name, "max |diff| %r" % float(np.max(np.abs(bc - np.asarray(ref)))), case))
    if "betweenness_bin" in res and "betweenness_wei" in res and not np.allclose(res["betweenness_bin"], res["betweenness_wei"], rtol=1e-9, atol=1e-9):
        fails.append(Failure("betweenness_wei:differs-from-binary-routine-on-0/1-input", "", case))
    return fails


def _big_cases(tier, lo, hi):
    combos = [(L, w, d) for (L, w) in ((42, 3), (66, 2), (33, 4), (22, 6), (12, 3), (8, 2)) for d in (False, True)]
    for k in range(lo, hi):
        L, w, d = combos[k % len(combos)]
        yield {"layers": L, "width": w, "directed": d}


def units(tier):
    us = [
        Unit("layered-large", check_big, count=lambda t: 12, cases=_big_cases, shards=(12, 12),
             space="layered graphs (consecutive layers completely connected) with 2^66, 3^42, 4^33 and 6^22 shortest paths between the end layers, "
                   "directed and undirected; cheap consequences of the definition only (sum identities, non-negativity, agreement of the four routines)"),
        Unit("exhaustive-binary", check, count=lambda t: _space(t).total, cases=_exh_cases,
             shards=(16, 64), space=_space(tier).describe() + " as 0/1 float64"),
        Unit("exhaustive-lengths", check, count=c03._w_total, cases=c03._w_cases, shards=(16, 64),
             space="; ".join(sp.describe() for sp in c03._wspace(tier)) + " used as length matrices (every tie pattern on these sizes)"),
        Unit("random-binary", check, strategy=lambda: cases(12, ["bin"]), examples=(400, 12000), shards=(4, 16)),
        Unit("random-lengths", check, strategy=lambda: cases(9, ["len"]), examples=(1000, 32000), shards=(8, 16)),
        Unit("random-lengths-large", check, strategy=lambda: cases(14, ["len"]), examples=(200, 8000), shards=(4, 16)),
        Unit("random-n<=28", check, strategy=lambda: cases(28, ["bin", "len"]), examples=(48, 800), shards=(12, 16)),
    ]
    if tier == "thorough":
        us.append(Unit("sampled-digraphs-n5", check, count=_d5_count, cases=_d5_cases, shards=(16, 64),
                       space="every 4th labelled digraph on 5 nodes (262144 of 1048576): a systematic sample, not exhaustive"))
    return us
