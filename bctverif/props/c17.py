"""C17 -- thresholding and weight conversion keep exactly the documented entries."""
import math
from fractions import Fraction

import numpy as np
from hypothesis import strategies as st

import bct
from bct.utils import BCTParamError

from .. import gen
from ..core import Failure, Unit

PROPERTY = "C17"
RULE = ("Cases = (op, matrix, parameter, copy flag). threshold_proportional: non-negative float matrices n=2..8 with weights on the grid k/4 "
        "(many ties), symmetric or not, sparse or dense support, zero or nonzero diagonal, p an exact rational: dyadic a/2^m (so p*count is "
        "exact and .5 boundaries are hit exactly) or general a/b, plus p outside [0,1] for the rejection clause. Other utilities: real signed "
        "float matrices, thr on/off the weight grid. Oracle = exact-rational count round_half_up(p*possible), strongest-k predicate "
        "(min kept >= max dropped; any tie-break accepted), value/identity predicates for copy. Non-trivial = (proportional) a tie straddles "
        "the cut, p*possible is exactly a half-integer, or fewer connections exist than requested; (absolute) some entry equals thr exactly; "
        "(absolute, also) some entry within 1e-9 relative of thr (thr one ulp / 1e-12 / 1e-10 relative away from a weight); "
        "whole matrix (and grid thr) multiplied by a power of two in 2^-400..2^400; (others) matrix has negative and zero entries. Distinct by hash of the case.")
BOUNDS = {"n": "2..8 (and 20..60 in the large units)", "p": "dyadic a/2^m (m<=6) and a/b (b<=40)", "weights": "k/4 (proportional), +-k/8 and floats (others)"}
# units additionally driven by libFuzzer coverage feedback through hypothesis.fuzz_one_input (bctverif/fuzz.py)
FUZZ_UNITS = {"quick": ["threshold_proportional", "other-utilities"], "thorough": ["threshold_proportional", "other-utilities"]}
MIN_NONTRIVIAL = {"quick": 300, "thorough": 3000}


def _round_half_up(x):
    f = math.floor(x)
    return f + 1 if x - f >= Fraction(1, 2) else f


_ORDER = ["C"]


def _check_copy_contract(name, fn, args, W, case, ctx, fails):
    """copy=True: argument untouched, fresh result. copy=False: result is the argument and holds the copy=True result."""
    W1 = gen.layout(W.copy(), _ORDER[0])
    o1 = ctx.call(fn, W1, *args, copy=True)
    if o1.status == "timeout":
        return None
    if not o1.ok:
        fails.append(Failure("crash:%s:%s" % (name, o1.exc_name()), repr(o1.exc), case))
        return None
    r1 = o1.value
    if not np.array_equal(W1, W, equal_nan=True):
        fails.append(Failure("%s:copy=True-modified-argument" % name, "argument changed", case))
    if r1 is W1 or (isinstance(r1, np.ndarray) and np.shares_memory(r1, W1)):
        fails.append(Failure("%s:copy=True-returned-argument" % name, "result aliases the argument", case))
    W2 = gen.layout(W.copy(), _ORDER[0])
    o2 = ctx.call(fn, W2, *args, copy=False)
    if o2.ok:
        if o2.value is not W2:
            fails.append(Failure("%s:copy=False-result-is-not-argument" % name, "result is a different object", case))
        if not np.array_equal(W2, r1, equal_nan=True):
            fails.append(Failure("%s:copy=False-argument-does-not-hold-result" % name, "argument after the call differs from the copy=True result", case))
    elif o2.status != "timeout":
        fails.append(Failure("crash:%s(copy=False):%s" % (name, o2.exc_name()), repr(o2.exc), case))
    # the flag handed over by position (it is the parameter right after the documented ones)
    W4 = gen.layout(W.copy(), _ORDER[0])
    o4 = ctx.call(fn, W4, *(list(args) + [False]))
    if o4.ok and (o4.value is not W4 or not np.array_equal(W4, r1, equal_nan=True)):
        fails.append(Failure("%s:positional-copy-flag-not-honoured" % name, "fn(W, ..., False): result is the argument: %s, argument holds the result: %s"
                             % (o4.value is W4, bool(np.array_equal(W4, r1, equal_nan=True))), case))
    # default is copy=True
    W3 = gen.layout(W.copy(), _ORDER[0])
    o3 = ctx.call(fn, W3, *args)
    if o3.ok and not np.array_equal(W3, W, equal_nan=True):
        fails.append(Failure("%s:default-modified-argument" % name, "argument changed with default copy flag", case))
    return r1


def check(case, ctx):
    op = case["op"]
    W = gen.layout(np.array(case["W"], dtype=float), case.get("order"))
    if case.get("dtype", "float64") != "float64" and op != "proportional":
        # single / half precision storage (the weights k/8 and their power-of-two multiples are exact there)
        W = gen.layout(W.astype(case["dtype"]), case.get("order"))
        ctx.label("dtype:" + case["dtype"])
    rt = {"float32": 1e-6, "float16": 2e-3}.get(str(W.dtype), 1e-12)
    n = len(W)
    fails = []
    ctx.label("op:" + op)
    _ORDER[0] = case.get("order", "C")
    ctx.label("layout:" + _ORDER[0])
    off = ~np.eye(n, dtype=bool)

    if op == "proportional":
        p = float(case["p"])
        if p > 1 or p < 0:
            ctx.label("p-out-of-range")
            W0 = W.copy()
            o = ctx.call(bct.threshold_proportional, W0, p)
            if o.status != "reject":
                fails.append(Failure("threshold_proportional:out-of-range-p-not-rejected", "p=%r gave %r" % (p, o), case))
            ctx.mark_nontrivial(case)
            return fails
        R = _check_copy_contract("threshold_proportional", bct.threshold_proportional, (p,), W, case, ctx, fails)
        if R is None:
            return fails
        R = np.asarray(R)
        sym = bool(np.array_equal(W, W.T))
        Wc = W.copy()
        np.fill_diagonal(Wc, 0)
        possible = n * (n - 1) // 2 if sym else n * (n - 1)
        exact = Fraction(p) * possible
        want = _round_half_up(exact)
        frac = exact - math.floor(exact)
        exact_half = frac == Fraction(1, 2)
        # the one legitimate ambiguity: the product evaluated in floating point lands exactly on a half although the exact product does not
        fprod = (n * n - n) * p / (2 if sym else 1)
        near_half = (not exact_half) and (fprod - math.floor(fprod) == 0.5)
        if abs(frac - Fraction(1, 2)) < Fraction(1, 10 ** 9) and not exact_half:
            ctx.label("product-within-1e-9-of-a-half")
        dyadic = bool(case.get("dyadic"))
        if sym:
            iu = np.triu_indices(n, 1)
            w_in = Wc[iu]
            w_out = R[iu]
        else:
            w_in = Wc[off]
            w_out = R[off]
        avail = int(np.sum(w_in != 0))
        kept = int(np.sum(w_out != 0))
        targets = {min(want, avail)}
        if near_half and not (dyadic and exact_half):
            # inexact product within 1e-9 of a half-integer: floating-point evaluation may land on either side
            targets.add(min(math.floor(exact), avail))
            targets.add(min(math.floor(exact) + 1, avail))
        if R.shape != W.shape:
            fails.append(Failure("threshold_proportional:shape", "%s" % (R.shape,), case))
            return fails
        if np.any(np.diag(R) != 0):
            fails.append(Failure("threshold_proportional:diagonal-not-cleared", "diag %s" % np.diag(R), case))
        if sym and not np.array_equal(R, R.T):
            fails.append(Failure("threshold_proportional:symmetric-input-asymmetric-output", "", case))
        if kept not in targets:
            fails.append(Failure("threshold_proportional:wrong-number-kept",
                                 "kept %d connections; round(p*possible)=round(%s*%d=%s)=%d, available %d" % (kept, p, possible, float(exact), want, avail), case))
        keptmask = w_out != 0
        if np.any(w_out[keptmask] != w_in[keptmask]):
            fails.append(Failure("threshold_proportional:kept-value-changed", "", case))
        if np.any(keptmask & (w_in == 0)):
            fails.append(Failure("threshold_proportional:created-connection", "", case))
        dropped = (~keptmask) & (w_in != 0)
        if np.any(keptmask) and np.any(dropped) and w_in[keptmask].min() < w_in[dropped].max():
            fails.append(Failure("threshold_proportional:not-the-strongest",
                                 "weakest kept %r < strongest dropped %r" % (w_in[keptmask].min(), w_in[dropped].max()), case))
        tie = bool(np.any(keptmask) and np.any(dropped) and w_in[keptmask].min() == w_in[dropped].max())
        if tie:
            ctx.label("tie-straddles-cut")
        if exact_half:
            ctx.label("exact-half")
        if avail < want:
            ctx.label("fewer-available-than-requested")
        if tie or exact_half or avail < want:
            ctx.mark_nontrivial(case)
        return fails

    if op == "absolute":
        thr = float(case["thr"])
        R = _check_copy_contract("threshold_absolute", bct.threshold_absolute, (thr,), W, case, ctx, fails)
        if R is None:
            return fails
        want = np.where((W >= thr) & off, W, 0.0)
        if not np.array_equal(np.asarray(R), want):
            u, v = np.argwhere(np.asarray(R) != want)[0]
            fails.append(Failure("threshold_absolute:wrong-entries", "cell (%d,%d): input %r thr %r -> %r" % (u, v, W[u, v], thr, np.asarray(R)[u, v]), case))
        if np.any((W == thr) & off):
            ctx.mark_nontrivial(case)
            ctx.label("entry-equals-thr")
        elif np.any(off & (W != thr) & (np.abs(W - thr) <= 1e-9 * abs(thr))):
            ctx.mark_nontrivial(case)
            ctx.label("entry-within-1e-9-of-thr")
        return fails

    interesting = bool(np.any(W < 0) and np.any(W == 0) and np.any(W > 0))
    if interesting:
        ctx.mark_nontrivial(case)
    if op in ("binarize", "wc-binarize"):
        fn, args = (bct.binarize, ()) if op == "binarize" else (bct.weight_conversion, ("binarize",))
        R = _check_copy_contract(op, fn, args, W, case, ctx, fails)
        if R is not None and not np.array_equal(np.asarray(R), (W != 0).astype(float)):
            fails.append(Failure("%s:not-indicator-of-nonzero" % op, "", case))
    elif op in ("normalize", "wc-normalize"):
        if not np.any(W != 0):
            return fails
        fn, args = (bct.normalize, ()) if op == "normalize" else (bct.weight_conversion, ("normalize",))
        R = _check_copy_contract(op, fn, args, W, case, ctx, fails)
        if R is not None:
            R = np.asarray(R)
            m = np.max(np.abs(W))
            if not np.isclose(np.max(np.abs(R)), 1.0, rtol=rt):
                fails.append(Failure("%s:max-magnitude-not-1" % op, "max |.| = %r" % np.max(np.abs(R)), case))
            if not np.allclose(R.astype(float) * float(m), W.astype(float), rtol=rt, atol=0):
                fails.append(Failure("%s:not-a-rescaling" % op, "", case))
    elif op in ("invert", "wc-lengths"):
        fn, args = (bct.invert, ()) if op == "invert" else (bct.weight_conversion, ("lengths",))
        R = _check_copy_contract(op, fn, args, W, case, ctx, fails)
        if R is not None:
            R = np.asarray(R)
            with np.errstate(divide="ignore"):
                want = np.where(W != 0, 1.0 / np.where(W != 0, W, 1.0), 0.0).astype(W.dtype)
            if not np.allclose(R, want, rtol=(0 if W.dtype == np.float64 else rt), atol=0):
                fails.append(Failure("%s:not-reciprocal-on-support" % op, "", case))
            o = ctx.call(fn, R.copy(), *args)
            if o.ok and not np.allclose(np.asarray(o.value, dtype=float), W.astype(float), rtol=rt, atol=0):
                fails.append(Failure("%s:does-not-undo-itself" % op, "", case))
    elif op == "wc-unknown":
        o = ctx.call(bct.weight_conversion, W.copy(), "nonsense")
        if o.ok:
            fails.append(Failure("weight_conversion:unknown-command-accepted", "", case))
    return fails


# ----------------------------------------------------------------------
@st.composite
def prop_cases(draw, nlo=2, nhi=8):
    n = draw(st.integers(nlo, nhi))
    sym = draw(st.booleans())
    dens = draw(st.sampled_from(["sparse", "medium", "dense", "dense"]))
    A = draw(gen.er_adj(n, not sym, dens))
    pr = [(i, j) for (i, j) in gen.pairs(n, not sym) if A[i, j]]
    vals = draw(st.lists(st.integers(1, 4), min_size=len(pr), max_size=len(pr)))
    W = np.zeros((n, n))
    for (i, j), v in zip(pr, vals):
        W[i, j] = v / 4.0
        if sym:
            W[j, i] = v / 4.0
    if not sym and np.array_equal(W, W.T):
        # force genuine asymmetry by construction (otherwise the routine rightly treats it as undirected)
        W[0, 1] = 0.75
        W[1, 0] = 0.25
    dg = draw(st.sampled_from(["zero", "zero", "nonzero"]))
    if dg == "nonzero":
        d = draw(st.lists(st.integers(0, 4), min_size=n, max_size=n))
        for i, v in enumerate(d):
            W[i, i] = v / 4.0
    W = W * draw(st.sampled_from([1.0, 1.0] + gen.POW2_SCALES))       # ranking of weights does not depend on the unit
    kind = draw(st.sampled_from(["dyadic", "dyadic", "half", "rational", "edge", "bad", "half-ulp"]))
    possible = n * (n - 1) // 2 if sym else n * (n - 1)
    dyadic = False
    if kind == "dyadic":
        m = draw(st.integers(1, 6))
        a = draw(st.integers(0, 2 ** m))
        p = a / 2 ** m
        dyadic = True
    elif kind == "half":
        # p = (j + 1/2) / possible  -- exactly representable only sometimes; tagged dyadic if it is
        j = draw(st.integers(0, max(0, possible - 1)))
        fr = Fraction(2 * j + 1, 2 * possible)
        p = fr.numerator / fr.denominator
        dyadic = Fraction(p) == fr
    elif kind == "half-ulp":
        # one or two ulps next to a p whose product is exactly a half
        j = draw(st.integers(0, max(0, possible - 1)))
        fr = Fraction(2 * j + 1, 2 * possible)
        p = fr.numerator / fr.denominator
        for _ in range(draw(st.integers(1, 2))):
            p = float(np.nextafter(p, draw(st.sampled_from([0.0, 1.0]))))
        p = min(max(p, 0.0), 1.0)
        dyadic = False
    elif kind == "rational":
        b = draw(st.integers(1, 40))
        a = draw(st.integers(0, b))
        p = a / b
        dyadic = Fraction(p) == Fraction(a, b)
    elif kind == "edge":
        p = draw(st.sampled_from([0.0, 1.0]))
        dyadic = True
    else:
        p = draw(st.sampled_from([-0.25, 1.5, -1e-9, 1.0000001]))
    return {"op": "proportional", "W": W, "p": p, "dyadic": dyadic, "order": draw(st.sampled_from(gen.ORDERS))}


@st.composite
def other_cases(draw, nlo=1, nhi=8):
    op = draw(st.sampled_from(["absolute", "absolute", "binarize", "normalize", "invert", "wc-binarize", "wc-normalize", "wc-lengths", "wc-unknown"]))
    n = draw(st.integers(nlo, nhi))
    directed = draw(st.booleans())
    A = draw(gen.er_adj(n, directed, draw(st.sampled_from(["sparse", "medium", "dense"]))))
    W = draw(gen.weights_for(A, draw(st.sampled_from(["signed", "signed", "float", "dyadic"])), directed))
    if draw(st.booleans()):
        d = draw(st.lists(st.integers(-4, 4), min_size=n, max_size=n))
        for i, v in enumerate(d):
            W[i, i] = v / 8.0
    # the whole matrix in another unit (exact for dyadic weights): nothing here may depend on an absolute magnitude
    scale = draw(st.sampled_from([1.0, 1.0] + gen.POW2_SCALES + [2.0 ** 60]))
    W = W * scale
    case = {"op": op, "W": W, "order": draw(st.sampled_from(gen.ORDERS))}
    if scale == 1.0 or 2.0 ** -60 <= scale <= 2.0 ** 60:
        case["dtype"] = draw(st.sampled_from(["float32", "float64", "float64"])) if np.all(np.abs(W)[W != 0] < 3e38) and np.all(W.astype(np.float32) == W) else "float64"
    if op == "absolute":
        thr = draw(st.sampled_from([0.0, 0.125, 0.25, 0.5, 0.75, 1.0, -0.25, -0.5, 0.3, 0.6])) * scale
        offw = W[~np.eye(n, dtype=bool)]
        offw = offw[offw != 0]
        how = draw(st.sampled_from(["next-up", "grid", "grid", "next-down", "rel+1e-12", "rel-1e-12", "equal", "rel+1e-10"]))
        if how != "grid" and len(offw):
            # a threshold a hair away from (or exactly at) one of the weights: "not below" is an exact comparison
            w = float(offw[draw(st.integers(0, len(offw) - 1))])
            thr = {"next-up": float(np.nextafter(w, np.inf)), "next-down": float(np.nextafter(w, -np.inf)), "equal": w,
                   "rel+1e-12": w + abs(w) * 1e-12, "rel-1e-12": w - abs(w) * 1e-12, "rel+1e-10": w + abs(w) * 1e-10}[how]
        case["thr"] = thr
    return case


_WS = {}


def _ws(tier):
    if tier not in _WS:
        specs = [(3, True), (3, False), (4, False)] if tier == "quick" else [(3, True), (3, False), (4, False), (4, True)]
        vals = (0.25, 0.5) if tier == "quick" else (0.5,)
        _WS[tier] = gen.WeightedSpace(specs, vals) if tier == "quick" else None
        if tier == "thorough":
            _WS[tier] = gen.WeightedSpace([(3, True), (3, False), (4, False)], (0.25, 0.5, 1.0))
    return _WS[tier]


_PS = [a / 16.0 for a in range(17)] + [1 / 3, 2 / 3, 1 / 6, 5 / 6, 0.1, 0.3, 0.7, 0.9]


def _exh_total(tier):
    return _ws(tier).total * len(_PS)


def _exh_cases(tier, lo, hi):
    from fractions import Fraction
    sp = _ws(tier)
    for k in range(lo, hi):
        g, pi = divmod(k, len(_PS))
        n, d, W = sp.at(g)
        p = _PS[pi]
        yield {"op": "proportional", "W": W, "p": p, "dyadic": pi < 17, "order": gen.ORDERS[k % len(gen.ORDERS)]}


def units(tier):
    return [
        Unit("threshold_proportional-exhaustive", check, count=_exh_total, cases=_exh_cases, shards=(16, 32),
             space="every 3-node directed / 3- and 4-node symmetric matrix with cell values in {0,.25,.5} (thorough: {0,.25,.5,1}) x p in "
                   "{a/16, a=0..16} + {1/3,2/3,1/6,5/6,.1,.3,.7,.9}"),
        Unit("threshold_proportional", check, strategy=prop_cases, examples=(3000, 120000), shards=(8, 16)),
        Unit("other-utilities", check, strategy=other_cases, examples=(2000, 90000), shards=(8, 16)),
        # counts in the hundreds / thousands: rounding of p*count, argsort on long tie runs, sparse support far below the request
        Unit("threshold_proportional-n<=60", check, strategy=lambda: prop_cases(20, 60), examples=(160, 3200), shards=(8, 16)),
        Unit("other-utilities-n<=60", check, strategy=lambda: other_cases(20, 60), examples=(120, 2400), shards=(4, 8)),
    ]
