"""C20 -- synthetic generators deliver the requested size, edge count and symmetry."""
import numpy as np
from hypothesis import strategies as st

import bct

from .. import gen
from ..core import Failure, Unit

PROPERTY = "C20"
RULE = ("Cases = (generator, parameters, seed). makerandCIJ_und/_dir and makeringlatticeCIJ: complete enumeration of all (N,K) pairs up to the "
        "stated N x several seeds, random beyond, N handed over as Python int or as NumPy scalar (uint8, int8, int16, uint16, int64), plus large sizes "
        "(N 300-1000, very sparse or nearly full); maketoeplitzCIJ: N<=12, K<=1/3 of the cells, s in {.5,1,2,4}; makeevenCIJ: N in {4..32} powers "
        "of two, all cluster sizes, K from the cluster-only count up to N(N-1); makefractalCIJ: mx_lvl 2..5, E in {1.5,2,3}; "
        "makerandCIJdegreesfixed: in/out degree pairs obtained as the degrees of a random simple digraph (graphical by construction). "
        "Oracle = exact combinatorial predicates on the returned matrix (shape, 0/1, empty diagonal, count, symmetry, band structure, "
        "row/column sums). Non-trivial = 0 < K < maximum (ring lattice: additionally >= 2 bands used and K not a multiple of the band size; "
        "degreesfixed: degree sequence not constant). Distinct by hash of (generator, parameters, seed).")
BOUNDS = {"exhaustive_quick": "(N,K) N<=7 x 3 seeds", "exhaustive_thorough": "(N,K) N<=9 x 8 seeds", "random_N": "<=20"}
# units additionally driven by libFuzzer coverage feedback through hypothesis.fuzz_one_input (bctverif/fuzz.py)
FUZZ_UNITS = {"quick": ["random-parameters"], "thorough": ["random-parameters"]}
MIN_NONTRIVIAL = {"quick": 300, "thorough": 3000}


def _basic(name, R, n, case, fails):
    try:
        R = np.asarray(R)
    except Exception:
        fails.append(Failure("%s:bad-return" % name, repr(R)[:100], case))
        return None
    if R.shape != (n, n):
        fails.append(Failure("%s:shape" % name, "shape %s, expected (%d,%d)" % (R.shape, n, n), case))
        return None
    Rf = R.astype(float)
    if not np.all((Rf == 0) | (Rf == 1)):
        fails.append(Failure("%s:not-binary" % name, "values %s" % np.unique(Rf)[:6], case))
    if np.any(np.diag(Rf) != 0):
        fails.append(Failure("%s:nonempty-diagonal" % name, "diag %s" % np.diag(Rf), case))
    return Rf


def check(case, ctx):
    g = case["gen"]
    seed = case["seed"]
    fails = []
    ctx.label("gen:" + g)

    def run(f, *a, **k):
        o = ctx.call(f, *a, seed=seed, **k)
        if o.ok:
            return o.value
        if o.status == "reject":
            ctx.label("rejected:" + g)
        elif o.status != "timeout":
            fails.append(Failure("crash:%s:%s" % (f.__name__, o.exc_name()), repr(o.exc)[:200], case))
        return None

    if g in ("rand_und", "rand_dir"):
        n, k = case["n"], case["k"]
        f = bct.makerandCIJ_und if g == "rand_und" else bct.makerandCIJ_dir
        R = run(f, _typed(n, case, ctx), k)
        if R is None:
            return fails
        R = _basic(f.__name__, R, n, case, fails)
        if R is None:
            return fails
        kmax = n * (n - 1) // 2 if g == "rand_und" else n * (n - 1)
        if 0 < k < kmax:
            ctx.mark_nontrivial(case)
        if g == "rand_und":
            if not np.array_equal(R, R.T):
                fails.append(Failure("makerandCIJ_und:not-symmetric", "K=%d N=%d" % (k, n), case))
            cnt = int(np.sum(np.triu(R, 1) + np.tril(R, -1).T > 0))
            if cnt != k:
                fails.append(Failure("makerandCIJ_und:wrong-connection-count", "%d undirected connections, requested %d" % (cnt, k), case))
        else:
            if int(R.sum()) != k:
                fails.append(Failure("makerandCIJ_dir:wrong-connection-count", "%d connections, requested %d" % (int(R.sum()), k), case))
        return fails

    if g == "ring":
        n, k = case["n"], case["k"]
        R = run(bct.makeringlatticeCIJ, _typed(n, case, ctx), k)
        if R is None:
            return fails
        R = _basic("makeringlatticeCIJ", R, n, case, fails)
        if R is None:
            return fails
        if int(R.sum()) != k:
            fails.append(Failure("makeringlatticeCIJ:wrong-connection-count", "%d connections, requested %d (N=%d)" % (int(R.sum()), k, n), case))
        idx = np.arange(n)
        off = np.abs(idx[:, None] - idx[None, :])
        circ = np.minimum(off, n - off)
        used = sorted(set(circ[R != 0].tolist()))
        bandsize = lambda d: int(np.sum(circ == d))
        if used:
            outer = max(used)
            for d in range(1, outer):
                if np.any((circ == d) & (R == 0)):
                    fails.append(Failure("makeringlatticeCIJ:nearer-band-not-full",
                                         "band at circular offset %d has empty cells although offset %d is used (N=%d K=%d)" % (d, outer, n, k), case))
                    break
            full_before = sum(bandsize(d) for d in range(1, outer))
            if not (full_before < k <= full_before + bandsize(outer)) and not fails:
                fails.append(Failure("makeringlatticeCIJ:outer-band-inconsistent", "outermost used band %d, K=%d, cells nearer %d" % (outer, k, full_before), case))
            if len(used) >= 2 and k != full_before + bandsize(outer) and 0 < k < n * (n - 1):
                ctx.mark_nontrivial(case)
        return fails

    if g == "toeplitz":
        n, k, s = case["n"], case["k"], case["s"]
        R = run(bct.maketoeplitzCIJ, _typed(n, case, ctx), k, s)
        if R is None:
            return fails
        R = _basic("maketoeplitzCIJ", R, n, case, fails)
        if R is not None:
            if int(R.sum()) != k:
                fails.append(Failure("maketoeplitzCIJ:wrong-connection-count", "%d vs %d" % (int(R.sum()), k), case))
            if k > 0:
                ctx.mark_nontrivial(case)
        return fails

    if g == "even":
        n, k, sz = case["n"], case["k"], case["sz_cl"]
        o0 = ctx.call(bct.makeevenCIJ, n, 0, sz, seed=0)
        if not o0.ok:
            if o0.status != "timeout":
                fails.append(Failure("crash:makeevenCIJ:%s" % o0.exc_name(), repr(o0.exc)[:200], case))
            return fails
        c0 = int(np.asarray(o0.value).sum())      # connections of the clusters alone (domain: K >= c0)
        if k < c0:
            ctx.label("even:K-below-cluster-count(skipped)")
            return fails
        R = run(bct.makeevenCIJ, n, k, sz)
        if R is None:
            return fails
        R = _basic("makeevenCIJ", R, n, case, fails)
        if R is not None:
            if int(R.sum()) != k:
                fails.append(Failure("makeevenCIJ:wrong-connection-count", "%d connections, requested %d (clusters alone %d)" % (int(R.sum()), k, c0), case))
            if c0 < k < n * (n - 1):
                ctx.mark_nontrivial(case)
        return fails

    if g == "fractal":
        mx, E, sz = case["mx_lvl"], case["E"], case["sz_cl"]
        r = run(bct.makefractalCIJ, mx, E, sz)
        if r is None:
            return fails
        try:
            R, kk = r
        except Exception:
            fails.append(Failure("makefractalCIJ:bad-return", repr(r)[:100], case))
            return fails
        R = _basic("makefractalCIJ", R, 2 ** mx, case, fails)
        if R is not None:
            if int(R.sum()) != kk:
                fails.append(Failure("makefractalCIJ:reported-count-wrong", "reported %r, matrix has %d" % (kk, int(R.sum())), case))
            if 0 < R.sum() < R.size - len(R):
                ctx.mark_nontrivial(case)
        return fails

    if g == "degfixed":
        inv = np.array(case["inv"], dtype=int)
        outv = np.array(case["outv"], dtype=int)
        n = len(inv)
        R = run(bct.makerandCIJdegreesfixed, inv.copy(), outv.copy())
        if R is None:
            return fails
        R = _basic("makerandCIJdegreesfixed", R, n, case, fails)
        if R is not None:
            if not np.array_equal(R.sum(axis=0), inv):
                fails.append(Failure("makerandCIJdegreesfixed:in-degrees-wrong", "column sums %s, requested %s" % (R.sum(axis=0), inv), case))
            if not np.array_equal(R.sum(axis=1), outv):
                fails.append(Failure("makerandCIJdegreesfixed:out-degrees-wrong", "row sums %s, requested %s" % (R.sum(axis=1), outv), case))
            if len(set(inv.tolist())) > 1 or len(set(outv.tolist())) > 1:
                ctx.mark_nontrivial(case)
        return fails
    raise ValueError(g)


# ----------------------------------------------------------------------
def _nk_list(tier):
    nmax = 7 if tier == "quick" else 9
    seeds = [0, 1, 7] if tier == "quick" else [0, 1, 2, 3, 7, 11, 42, 2 ** 31]
    out = []
    for n in range(2, nmax + 1):
        for k in range(0, n * (n - 1) + 1):
            for s in seeds:
                out.append(("rand_dir", n, k, s))
                out.append(("ring", n, k, s))
                if k <= n * (n - 1) // 2:
                    out.append(("rand_und", n, k, s))
    return out


def _typed(n, case, ctx):
    """the size as the caller holds it: a Python int, or a NumPy integer scalar (what loadmat / array indexing / len-arithmetic produce);
    with the narrow types n*(n-1) does not fit although n does"""
    t = case.get("n_type")
    if not t:
        return n
    ctx.label("N-as-" + t)
    return getattr(np, t)(n)


_NK = {}


def _nk(tier):
    if tier not in _NK:
        _NK[tier] = _nk_list(tier)
    return _NK[tier]


def _exh(tier, lo, hi):
    for g, n, k, s in _nk(tier)[lo:hi]:
        yield {"gen": g, "n": n, "k": k, "seed": s}


@st.composite
def cases(draw):
    g = draw(st.sampled_from(["rand_und", "rand_dir", "ring", "ring", "toeplitz", "even", "even", "fractal", "degfixed", "degfixed"]))
    seed = draw(gen.seeds())
    if g in ("rand_und", "rand_dir", "ring"):
        n = draw(st.integers(2, 20))
        kmax = n * (n - 1) // 2 if g == "rand_und" else n * (n - 1)
        k = draw(st.integers(0, kmax))
        return {"gen": g, "n": n, "k": k, "seed": seed, "n_type": draw(st.sampled_from(["uint8", None, "int8", None, "int16", "int64", None, "uint16"]))}
    if g == "toeplitz":
        n = draw(st.integers(4, 12))
        k = draw(st.integers(1, max(1, n * (n - 1) // 3)))
        s = draw(st.sampled_from([0.5, 1.0, 2.0, 4.0]))
        return {"gen": g, "n": n, "k": k, "s": s, "seed": seed, "n_type": draw(st.sampled_from(["uint8", None, "int8", None, "int64"]))}
    if g == "even":
        m = draw(st.integers(2, 5))
        n = 2 ** m
        sz = draw(st.integers(1, m))
        c0 = n * (2 ** sz - 1)          # connections of the fully connected clusters of size 2^sz_cl alone
        k = draw(st.integers(c0, n * (n - 1)))
        return {"gen": g, "n": n, "k": k, "sz_cl": sz, "seed": seed}
    if g == "fractal":
        mx = draw(st.integers(2, 5))
        return {"gen": g, "mx_lvl": mx, "E": draw(st.sampled_from([2.0, 1, 1.5, 1.0, 3.0])), "sz_cl": draw(st.integers(1, mx)), "seed": seed}
    n = draw(st.integers(2, 10))
    A = draw(gen.er_adj(n, True))
    return {"gen": g, "inv": A.sum(axis=0).astype(int), "outv": A.sum(axis=1).astype(int), "seed": seed}


@st.composite
def large_cases(draw):
    """one size class up: counts beyond 10^5 (a relative tolerance on the count would show here)"""
    g = draw(st.sampled_from(["toeplitz", "rand_dir", "sparse_und", "rand_und", "toeplitz", "ring", "sparse_dir", "sparse_und"]))
    seed = draw(gen.seeds())
    if g.startswith("sparse"):
        # large and very sparse: well under 1% of the cells
        n = draw(st.sampled_from([600, 1000, 300, 800]))
        m = n * (n - 1) // 2 if g == "sparse_und" else n * (n - 1)
        return {"gen": "rand_und" if g == "sparse_und" else "rand_dir", "n": n, "k": draw(st.integers(m // 300, m // 101)), "seed": seed}
    n = draw(st.sampled_from([360, 400, 450]))
    if g == "toeplitz":
        return {"gen": g, "n": n, "k": draw(st.sampled_from([100000, 100003, 120001])), "s": draw(st.sampled_from([150.0, 200.0])), "seed": seed}
    kmax = n * (n - 1) // 2 if g == "rand_und" else n * (n - 1)
    return {"gen": g, "n": n, "k": draw(st.integers(kmax - 5000, kmax - 1)) if g != "rand_und" else draw(st.integers(kmax - 2000, kmax - 1)), "seed": seed}


def units(tier):
    return [
        Unit("large-sizes", check, strategy=large_cases, examples=(96, 640), shards=(16, 16)),
        Unit("exhaustive-N-K", check, count=lambda t: len(_nk(t)), cases=_exh, shards=(16, 32),
             space="makerandCIJ_und/_dir, makeringlatticeCIJ: every (N,K), N<=%d, x %d seeds" % ((7, 3) if tier == "quick" else (9, 8))),
        Unit("random-parameters", check, strategy=cases, examples=(6000, 320000), shards=(8, 16)),
    ]
