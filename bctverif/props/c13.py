"""C13 -- library calls never modify the caller's arrays unless copy=False is requested."""
import inspect

import numpy as np
from hypothesis import strategies as st

import bct

from .. import gen
from ..core import Failure, Unit
from . import c05

PROPERTY = "C13"
RULE = ("Cases = (public function, arguments): every public callable of the bct namespace found by introspection, joined with an argument "
        "registry (matrix of the documented kind, label vectors with arbitrary non-contiguous labels, distance matrices, subject stacks, degree "
        "vectors, coordinates, scalars). Arrays deliberately carry what tempts in-place edits: nonzero diagonal, signed entries, int64 binaries, "
        "C-ordered, F-ordered and non-contiguous (sliced) memory. Default flags, and copy=True where a copy flag exists (copy=False is the "
        "stated exception and is excluded). Oracle = deep snapshot (values NaN-aware, dtype, shape) of every ndarray argument, including "
        "arrays nested in list/tuple arguments, taken before the call and compared after it, whether the call returned or raised. "
        "A call-sequences unit runs 2-5 calls in a row and re-checks the snapshots of ALL earlier arguments after every later call. "
        "Non-trivial = the call completed or raised, and at least one array argument had a nonzero diagonal or labels other than 1..k; "
        "distinct by hash of (function, arguments).")
BOUNDS = {"n": "3..7", "per_call_timeout_s": 5}
MIN_NONTRIVIAL = {"quick": 1000, "thorough": 10000}

NOT_ARRAY_TAKING = {
    "BCTParamError": "exception class", "BibTeX": "citation helper", "adjacency_plot_und": "needs mayavi GUI", "writetoPAJ": "writes a file",
    "make_motif34lib": "writes a file", "get_rng": "no array argument", "pick_four_unique_nodes_quickly": "no array argument",
    "teachers_round": "scalar helper", "makeevenCIJ": "scalar arguments", "makefractalCIJ": "scalar arguments", "makerandCIJ_dir": "scalar arguments",
    "makerandCIJ_und": "scalar arguments", "makeringlatticeCIJ": "scalar arguments", "maketoeplitzCIJ": "scalar arguments",
}

# first-argument matrix kind for the plain "f(matrix, *scalars)" functions
MAT = {
    # binary undirected
    "clustering_coef_bu": "bu", "transitivity_bu": "bu", "kcore_bu": ("bu", [2]), "kcoreness_centrality_bu": "bu", "rich_club_bu": "bu",
    "efficiency_bin": "bu", "edge_nei_overlap_bu": "bu", "matching_ind_und": "bu", "get_components": "bu", "number_of_components": "bu",
    "get_components_old": "bu", "clique_communities": ("bu", [3]), "subgraph_centrality": "bu", "degrees_und": "wu", "density_und": "wu",
    "assortativity_bin": "bu", "randomizer_bin_und": ("bu", [0.5]), "resource_efficiency_bin": ("bu", [0.5]),
    # binary directed
    "clustering_coef_bd": "bd", "transitivity_bd": "bd", "kcore_bd": ("bd", [2]), "kcoreness_centrality_bd": "bd", "rich_club_bd": "bd",
    "betweenness_bin": "bd", "edge_betweenness_bin": "bd", "distance_bin": "bd", "breadthdist": "bd", "reachdist": "bd", "breadth": ("bd", [0]),
    "findwalks": "bd", "findpaths": ("bd", [3, np.array([0])]), "edge_nei_overlap_bd": "bd", "matching_ind": "bd", "erange": "bd",
    "flow_coef_bd": "bd", "jdegree": "bd", "degrees_dir": "wd", "density_dir": "wd",
    "motif3funct_bin": "bd", "motif3struct_bin": "bd", "motif4funct_bin": "bd", "motif4struct_bin": "bd", "find_motif34": None,
    # weighted undirected
    "clustering_coef_wu": "wu", "transitivity_wu": "wu", "score_wu": ("wu", [0.75]), "rich_club_wu": "wu", "efficiency_wei": "wu",
    "strengths_und": "wu", "assortativity_wei": "wu", "eigenvector_centrality_und": "wu", "diffusion_efficiency": "wu",
    "mean_first_passage_time": "wu", "search_information": "wu", "path_transitivity": "wu", "rout_efficiency": "wu",
    "distance_wei_floyd": "wu", "backbone_wu": ("wu", [2]), "link_communities": "wu", "gtom": ("bu", [2]),
    "local_assortativity_wu_sign": "sign", "clustering_coef_wu_sign": "sign", "strengths_und_sign": "sign",
    # weighted directed
    "clustering_coef_wd": "wd", "transitivity_wd": "wd", "rich_club_wd": "wd", "betweenness_wei": "wd", "edge_betweenness_wei": "wd",
    "distance_wei": "wd", "strengths_dir": "wd", "pagerank_centrality": ("wd", [0.85]), "core_periphery_dir": "wd",
    "motif3funct_wei": "wd01", "motif3struct_wei": "wd01", "motif4funct_wei": "wd01", "motif4struct_wei": "wd01",
    # utilities (default copy flag and copy=True)
    "threshold_absolute": ("sign", [0.25]), "threshold_proportional": ("wu", [0.5]), "binarize": "sign", "normalize": "sign", "invert": "sign",
    "weight_conversion": ("sign", ["normalize"]), "logtransform": "wu01full", "autofix": "sign", "cuberoot": "sign",
    "charpath": "dist", "cycprob": None, "reorderMAT": ("wu", []), "reorder_matrix": ("wu", []), "grid_communities": None,
}
# functions taking (matrix, partition)
WITH_CI = {
    "participation_coef": "wu", "participation_coef_sparse": "wu", "participation_coef_sign": "sign", "module_degree_zscore": "wd",
    "diversity_coef_sign": "sign", "gateway_coef_sign": "sign", "modularity_und_sign": "sign", "reorder_mod": "wu",
}
SLOW = {"link_communities", "motif4funct_bin", "motif4struct_bin", "motif4funct_wei", "motif4struct_wei", "clique_communities",
        "motif3funct_wei", "motif3struct_wei", "evaluate_generative_model", "consensus_und", "reorder_matrix", "reorderMAT", "align_matrices"}


def public_functions():
    return [n for n in sorted(dir(bct)) if callable(getattr(bct, n)) and not n.startswith("_")]


@st.composite
def matrix(draw, kind, nmin=3, nmax=7):
    n = draw(st.integers(nmin, nmax))
    directed = kind in ("bd", "wd", "wd01")
    A = draw(gen.er_adj(n, directed, draw(st.sampled_from(["medium", "dense"]))))
    A[0, 1] = True
    if not directed:
        A[1, 0] = True
    if kind in ("bu", "bd"):
        pick = draw(st.integers(0, 6))
        if pick == 0:
            W = A.astype(np.int64)
        elif pick >= 5:
            W = A.copy()                      # boolean adjacency matrix (e.g. the result of W > 0)
        elif pick <= 2:
            # a weighted matrix handed to a routine documented for binary input is still the caller's array
            W = draw(gen.weights_for(A, "dyadic", directed))
        else:
            W = A.astype(float)
    elif kind == "sign":
        W = draw(gen.weights_for(A, "signed", False))
    elif kind == "wu01full":
        W = draw(gen.weights_for(gen.complete_adj(n) | np.eye(n, dtype=bool), "dyadic", True))
        W = np.where(W == 0, 0.5, W)
        W = (W + W.T) / 2
    elif kind == "dist":
        vals = draw(st.lists(st.integers(1, 5), min_size=n * n, max_size=n * n))
        W = np.array(vals, dtype=float).reshape(n, n)
        W = (W + W.T) / 2
        if draw(st.booleans()):      # unreachable pairs, as the distance routines produce them
            i, j = draw(st.integers(0, n - 1)), draw(st.integers(0, n - 1))
            if i != j:
                W[i, j] = W[j, i] = np.inf
    else:
        W = draw(gen.weights_for(A, "dyadic", directed))
    diag = draw(st.sampled_from(["nonzero", "nonzero", "zero", "cancelling"]))
    if W.dtype == bool:
        if diag in ("nonzero", "cancelling"):     # partly filled diagonal
            for i in range(0, n, 2):
                W[i, i] = True
    elif diag == "nonzero" and kind != "wu01full":
        d = draw(st.lists(st.integers(1, 4), min_size=n, max_size=n))
        for i, v in enumerate(d):
            W[i, i] = (1 if W.dtype.kind == "i" or kind in ("bu", "bd") else v / 4.0)
    elif diag == "cancelling" and kind == "sign":
        # self-connections of both signs that sum to zero (a zero trace is not an empty diagonal)
        for i in range(0, n - 1, 2):
            v = draw(st.integers(1, 4)) / 4.0
            W[i, i], W[i + 1, i + 1] = v, -v
    if W.dtype.kind == "f" and draw(st.integers(0, 4)) == 0:
        # non-finite entries (missing values, "infinite length = no connection"): whatever the routine makes of them,
        # the caller's array stays as it is
        bad = draw(st.sampled_from([np.nan, np.inf, np.nan, -np.inf]))
        for _ in range(draw(st.integers(1, 3))):
            i, j = draw(st.integers(0, n - 1)), draw(st.integers(0, n - 1))
            if i != j or draw(st.booleans()):
                W[i, j] = bad
                if not directed:
                    W[j, i] = bad
    layout = draw(st.sampled_from(["C", "F", "sliced"]))
    if layout == "F":
        W = np.asfortranarray(W)
    elif layout == "sliced":
        big = np.zeros((2 * n, 2 * n), dtype=W.dtype)
        big[::2, ::2] = W
        W = big[::2, ::2]
    return W


@st.composite
def labels(draw, n):
    ci = draw(gen.partition(n))
    k = int(ci.max())
    m = draw(gen.relabelling(k))
    out = np.array([m[l - 1] for l in ci])
    return out if out.dtype.kind == "f" else out.astype(int)


@st.composite
def call_args(draw, name):
    """(args, kwargs) for a public function, or None if the function has no registry row"""
    if name == "consensus_und":
        # agreement matrices as agreement() produces them (dense, nonzero diagonal possible), thresholds from "cuts nothing" upwards
        D = draw(matrix("wu01full" if draw(st.booleans()) else "wu", 4, 6))
        tau = draw(st.sampled_from([0.0, 0.125, 0.25, 0.5, float(np.min(np.array(D, dtype=float)))]))
        return [D, tau], {"reps": draw(st.integers(2, 3)), "seed": draw(st.integers(0, 100))}
    if name in c05.registered() and name not in ("get_rng", "pick_four_unique_nodes_quickly", "core_periphery_dir"):
        a, kw = draw(c05.arg_strategy(name))
        a = list(a)
        # tempt in-place edits: put something on the diagonal of the first square matrix
        if a and isinstance(a[0], np.ndarray) and a[0].ndim == 2 and a[0].shape[0] == a[0].shape[1] and draw(st.booleans()):
            a[0] = a[0].astype(float).copy() if a[0].dtype.kind != "f" else a[0].copy()
            np.fill_diagonal(a[0], 0.5 if name not in ("randomizer_bin_und",) else 1.0)
        kw = dict(kw)
        kw["seed"] = draw(st.integers(0, 1000))
        return a, kw
    if name in WITH_CI:
        W = draw(matrix(WITH_CI[name]))
        ci = draw(labels(len(W)))
        shp = draw(st.sampled_from(["column", "flat", "flat", "row"]))          # the docstrings speak of Nx1 vectors
        if shp != "flat":
            ci = ci.reshape((-1, 1) if shp == "column" else (1, -1))
        if name == "modularity_und_sign":
            return [W, ci], {"qtype": draw(st.sampled_from(["sta", "smp", "gja", "pos", "neg"]))}
        return [W, ci], {}
    if name in ("modularity_und", "modularity_dir"):
        W = draw(matrix("wu" if name.endswith("und") else "wd"))
        return [W], {"gamma": 1, "kci": (draw(labels(len(W))) if draw(st.booleans()) else None)}
    if name == "partition_distance":
        n = draw(st.integers(3, 8))
        return [draw(labels(n)), draw(labels(n))], {}
    if name in ("agreement", "dummyvar"):
        n = draw(st.integers(3, 7))
        return [np.column_stack([draw(labels(n)) for _ in range(3)])], {}
    if name == "agreement_weighted":
        n = draw(st.integers(3, 7))
        return [np.column_stack([draw(gen.partition(n)) for _ in range(3)]), np.array([0.5, 0.25, 0.25])], {}
    if name == "ci2ls":
        return [draw(labels(draw(st.integers(2, 8))))], {}
    if name == "ls2ci":
        ci = draw(gen.partition(draw(st.integers(2, 8))))
        return [[np.flatnonzero(ci == l).tolist() for l in np.unique(ci)]], {}
    if name in ("corr_flat_und", "corr_flat_dir", "dice_pairwise_und"):
        k = "wu" if name != "corr_flat_dir" else "wd"
        W = draw(matrix(k, 4, 4))
        V = draw(matrix(k, 4, 4))
        return [W, V], {}
    if name == "navigation_wu":
        W = draw(matrix("wu"))
        return [W, draw(matrix("dist", len(W), len(W)))], {"max_hops": len(W)}
    if name == "retrieve_shortest_path":
        W = draw(matrix("wu"))
        _, hops, Pmat = bct.distance_wei_floyd(np.array(W, dtype=float))
        return [0, len(W) - 1, hops, Pmat], {}
    if name == "cycprob":
        n = draw(st.integers(3, 5))
        v = draw(st.lists(st.integers(0, 3), min_size=n * n * n, max_size=n * n * n))
        return [np.array(v, dtype=float).reshape(n, n, n)], {}
    if name == "find_motif34":
        return [draw(st.integers(1, 13)), 3], {}
    if name == "grid_communities":
        return [draw(labels(draw(st.integers(3, 8))))], {}
    if name == "align_matrices":
        return [draw(matrix("wu", 4, 4)), draw(matrix("wu", 4, 4))], {"H": 20}
    if name == "core_periphery_dir":
        return [draw(matrix("wd"))], {"seed": draw(st.integers(0, 100))}
    if name in MAT and MAT[name] is not None:
        spec = MAT[name]
        kind, extra = (spec, []) if isinstance(spec, str) else spec
        W = draw(matrix(kind))
        kw = {}
        if name in ("reorderMAT", "reorder_matrix"):
            kw["H"] = 20
        if name in ("binarize", "normalize", "invert", "autofix", "logtransform", "threshold_absolute", "threshold_proportional", "weight_conversion"):
            if draw(st.booleans()):
                kw["copy"] = True
        if name in ("efficiency_bin", "efficiency_wei") and draw(st.booleans()):
            kw["local"] = True
        if name in ("assortativity_bin", "assortativity_wei"):
            kw["flag"] = 0
        if name == "clustering_coef_wu_sign":
            kw["coef_type"] = draw(st.sampled_from(["default", "zhang", "costantini"]))
        if name == "distance_wei_floyd" or name == "rout_efficiency":
            kw["transform"] = draw(st.sampled_from([None, "inv"]))
        if name == "resource_efficiency_bin" and draw(st.booleans()):
            # the caller's own distance matrix, with one of the usual conventions on its diagonal
            with np.errstate(all="ignore"):
                spl = np.asarray(bct.distance_bin(np.nan_to_num(np.array(W, dtype=float), nan=0.0, posinf=1.0, neginf=1.0)), dtype=float)
            dg = draw(st.sampled_from(["inf", "zero", "nan", "one"]))
            if dg != "zero":
                np.fill_diagonal(spl, {"inf": np.inf, "nan": np.nan, "one": 1.0}[dg])
            kw["spl"] = spl
        if name == "resource_efficiency_bin" and draw(st.booleans()):
            # the caller's own transition matrix (self-connections keep a walker in place with some probability)
            Af = np.nan_to_num(np.array(W, dtype=float), nan=0.0, posinf=1.0, neginf=1.0) != 0
            Af = Af.astype(float)
            if draw(st.booleans()):
                for i in range(0, len(Af), 2):
                    Af[i, i] = 1.0
            rs = Af.sum(axis=1, keepdims=True)
            kw["m"] = Af / np.where(rs == 0, 1.0, rs)
        return [W] + list(extra), kw
    return None


def registered_names():
    out = []
    for n in public_functions():
        if n in NOT_ARRAY_TAKING:
            continue
        if n in c05.registered() or n in WITH_CI or n in MAT and MAT[n] is not None or n in (
                "modularity_und", "modularity_dir", "partition_distance", "agreement", "dummyvar", "agreement_weighted", "ci2ls", "ls2ci",
                "corr_flat_und", "corr_flat_dir", "dice_pairwise_und", "navigation_wu", "retrieve_shortest_path", "cycprob", "find_motif34",
                "grid_communities", "align_matrices", "core_periphery_dir"):
            out.append(n)
    return out


def uncovered_names():
    reg = set(registered_names())
    return [n for n in public_functions() if n not in reg and n not in NOT_ARRAY_TAKING]


def _snap(x, path, out):
    if isinstance(x, np.ndarray):
        out.append((path, x, np.array(x, copy=True, order="K"), x.dtype, x.shape))
    elif isinstance(x, (list, tuple)):
        for i, v in enumerate(x):
            _snap(v, "%s[%d]" % (path, i), out)
    elif isinstance(x, dict):
        for k, v in x.items():
            _snap(v, "%s[%r]" % (path, k), out)


def _tempting(a):
    if isinstance(a, np.ndarray):
        if a.ndim == 2 and a.shape[0] == a.shape[1] and np.any(np.diag(a) != 0):
            return True
        if a.ndim == 1 and a.dtype.kind == "i" and len(a) and sorted(set(a.tolist())) != list(range(1, len(set(a.tolist())) + 1)):
            return True
    return False


def check_sequence(case, ctx):
    """several calls in a row; every array handed to an EARLIER call must still be intact after every LATER call
    (a routine that keeps a reference to its argument, a shared cache or a mutable default would show here)"""
    fails = []
    ctx.label("sequence")
    kept = []          # (step, fn, path, live array, snapshot)
    tempting = False
    for t, call in enumerate(case["calls"]):
        name = call["fn"]
        fn = getattr(bct, name)
        args = [np.array(a) if isinstance(a, np.ndarray) else a for a in call["args"]]
        kwargs = dict(call["kwargs"])
        snaps = []
        _snap(args, "call%d(%s).args" % (t, name), snaps)
        _snap(kwargs, "call%d(%s).kwargs" % (t, name), snaps)
        tempting = tempting or any(_tempting(sn[1]) for sn in snaps)
        o = ctx.call(fn, *args, timeout=5.0, **kwargs)
        if o.status == "timeout":
            return fails
        kept.extend((t, name) + sn for sn in snaps)
        for (t0, fn0, path, live, before, dt, shp) in kept:
            if live.dtype != dt or live.shape != shp or not np.array_equal(live, before, equal_nan=(live.dtype.kind in "fc")):
                fails.append(Failure("%s:argument-modified" % fn0 if t0 == t else "%s:argument-of-earlier-call-modified-by-later-call" % name,
                                     "%s was changed; detected after call %d (%s)" % (path, t, name), case))
                return fails
    if tempting:
        ctx.mark_nontrivial(case)
    return fails


def check(case, ctx):
    if "calls" in case:
        return check_sequence(case, ctx)
    name = case["fn"]
    fn = getattr(bct, name)
    args = case["args"]
    kwargs = case["kwargs"]
    fails = []
    ctx.label("fn:" + name)
    # rebuild layout-sensitive arrays (replay files store plain nested lists)
    lay = case.get("layout", {})
    args = list(args)
    for idx, how in lay.items():
        a = np.array(args[int(idx)])
        if how == "F":
            a = np.asfortranarray(a)
        elif how == "sliced":
            big = np.zeros(tuple(2 * s for s in a.shape), dtype=a.dtype)
            big[tuple(slice(None, None, 2) for _ in a.shape)] = a
            a = big[tuple(slice(None, None, 2) for _ in a.shape)]
        args[int(idx)] = a
    snaps = []
    _snap(args, "args", snaps)
    _snap(kwargs, "kwargs", snaps)
    tempting = any(_tempting(s[1]) for s in snaps)
    o = ctx.call(fn, *args, timeout=5.0, **kwargs)
    if o.status == "timeout":
        return fails
    ctx.notes["returned" if o.ok else "raised:" + str(o.exc_name())] += 1
    for path, live, before, dt, shp in snaps:
        if live.dtype != dt or live.shape != shp:
            fails.append(Failure("%s:argument-dtype-or-shape-changed" % name, "%s: %s%s -> %s%s" % (path, dt, shp, live.dtype, live.shape), case))
            continue
        if not np.array_equal(live, before, equal_nan=(live.dtype.kind in "fc")):
            diff = np.argwhere(~((live == before) | ((live != live) & (before != before)))) if live.dtype.kind in "fc" else np.argwhere(live != before)
            where = tuple(int(v) for v in diff[0]) if len(diff) else ()
            ondiag = live.ndim == 2 and all(len(set(int(x) for x in d)) == 1 for d in diff)
            fails.append(Failure("%s:argument-modified" % name,
                                 "%s changed at %s: %r -> %r (%d cells%s); call %s" % (path, where, before[where], live[where], len(diff),
                                                                                       ", all on the diagonal" if ondiag else "",
                                                                                       "returned" if o.ok else "raised " + str(o.exc_name())), case,
                                 {"only_diagonal": bool(ondiag)}))
    if tempting:
        ctx.mark_nontrivial({"fn": name, "args": args, "kwargs": kwargs})
    return fails


def _bool_flags(name):
    """boolean keyword parameters of a public function (copy is the stated exception of the property and stays True)"""
    try:
        sig = inspect.signature(getattr(bct, name))
    except (TypeError, ValueError):
        return []
    return [(p.name, p.default) for p in sig.parameters.values() if isinstance(p.default, bool) and p.name != "copy"]


@st.composite
def cases(draw, name):
    r = draw(call_args(name))
    args, kwargs = r
    kwargs = dict(kwargs)
    if args and isinstance(args[0], np.ndarray) and args[0].ndim == 2 and args[0].shape[0] == args[0].shape[1] \
            and name not in c05.registered() and draw(st.integers(0, 11)) == 0:
        # malformed input (one extra column): many routines then raise part-way through -- "returns OR RAISES"
        a0 = args[0]
        args = [np.hstack([a0, a0[:, :1]])] + list(args[1:])
    for flag, default in _bool_flags(name):
        if flag not in kwargs and draw(st.booleans()):
            kwargs[flag] = not default           # exercise the non-default branch of every boolean option
    layout = {}
    for i, a in enumerate(args):
        if isinstance(a, np.ndarray) and a.ndim >= 1:
            if a.flags["F_CONTIGUOUS"] and not a.flags["C_CONTIGUOUS"]:
                layout[str(i)] = "F"
            elif not a.flags["C_CONTIGUOUS"] and not a.flags["F_CONTIGUOUS"]:
                layout[str(i)] = "sliced"
    return {"fn": name, "args": list(args), "kwargs": kwargs, "layout": layout}


SEQ_POOL = None


@st.composite
def sequences(draw):
    global SEQ_POOL
    if SEQ_POOL is None:
        SEQ_POOL = [n for n in registered_names() if n not in SLOW and n not in ("rentian_scaling", "randomize_graph_partial_und", "nbs_bct",
                                                                                 "generative_model", "find_motif34")]
    k = draw(st.integers(2, 5))
    calls = []
    for _ in range(k):
        name = draw(st.sampled_from(SEQ_POOL))
        a, kw = draw(call_args(name))
        calls.append({"fn": name, "args": list(a), "kwargs": kw})
    return {"calls": calls}


def units(tier):
    us = [Unit("call-sequences", check, strategy=sequences, examples=(800, 10000), shards=(8, 16))]
    BOUNDS["uncovered"] = uncovered_names()
    BOUNDS["public_functions"] = len(public_functions())
    BOUNDS["registered"] = len(registered_names())
    for name in registered_names():
        ex = (16, 150) if name in SLOW else (100, 1000)
        us.append(Unit(name, check, strategy=(lambda nm=name: cases(nm)), examples=ex, shards=(1, 2)))
    return us


ASSUMPTIONS = ["public functions without an argument registry row are reported under bounds.uncovered; GUI / file-writing / scalar-only "
               "functions are listed under bounds.not_array_taking"]
BOUNDS["not_array_taking"] = NOT_ARRAY_TAKING
BOUNDS["uncovered"] = None  # filled lazily by run (see units_run vs public function list)
