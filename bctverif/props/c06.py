"""C06 -- signed null models keep each node's positive/negative degree and all weights."""
import numpy as np
from hypothesis import strategies as st

import bct

from .. import gen
from ..core import Failure, Unit

PROPERTY = "C06"
RULE = ("Cases = (routine, matrix, bin_swaps/itr, wei_freq, seed) for randmio_und_signed, randmio_dir_signed, null_model_und_sign, "
        "null_model_dir_sign; matrices signed on the grid +-k/8, n=4..12 (20 thorough), at least one positive and one negative connection by "
        "construction, symmetric for _und and genuinely asymmetric for _dir, densities from sparse to full, empty diagonal (null models also with "
        "a nonzero diagonal, which they clear); itr/bin_swaps in {0,1,2,5}; wei_freq in {0,.05,.1,.15,.25,.3,.35,.4,.5,.6,.7,.9,1}. Oracle = exact per-node counts of "
        "positive and negative entries per row and per column, exact sorted positive / negative weight multisets, empty diagonal, symmetry, and "
        "np.corrcoef of the input's and output's signed strength vectors recomputed independently. Non-trivial = output differs from the "
        "(diagonal-cleared) input and the input's signed degree sequence is not constant; distinct by hash of the case.")
BOUNDS = {"n": "4..12 quick, 4..20 thorough; up to 32 in the large units"}
MIN_NONTRIVIAL = {"quick": 300, "thorough": 3000}


def _signed_deg(X):
    P, N = (X > 0), (X < 0)
    return P.sum(axis=0), P.sum(axis=1), N.sum(axis=0), N.sum(axis=1)


def _corr(a, b):
    with np.errstate(all="ignore"):
        return np.corrcoef(a, b)[0, 1]


def check(case, ctx):
    name = case["fn"]
    W = np.array(case["W"], dtype=float)
    n = len(W)
    fn = getattr(bct, name)
    und = "_und" in name
    null = name.startswith("null_model")
    fails = []
    ctx.label("fn:" + name)
    ctx.label("scale:" + str(case.get("scale", "unit")))
    W0 = W.copy()
    np.fill_diagonal(W0, 0)
    dt = case.get("dtype", "float64")
    if dt != "float64":
        ctx.label("dtype:" + dt)
    if null:
        o = ctx.call(fn, gen.layout(W.astype(dt), case.get("order")), bin_swaps=case["itr"], wei_freq=case["wei_freq"], seed=case["seed"], timeout=20)
    else:
        o = ctx.call(fn, gen.layout(W.astype(dt), case.get("order")), case["itr"], seed=case["seed"], timeout=20)
    if o.status == "timeout":
        return fails
    if o.status == "reject":
        fails.append(Failure("%s:in-domain-input-rejected" % name, repr(o.exc), case))
        return fails
    if not o.ok:
        return [Failure("crash:%s:%s" % (name, o.exc_name()), repr(o.exc)[:200], case)]
    try:
        X, extra = o.value
        X = np.asarray(X, dtype=float)
    except Exception:
        return [Failure("%s:bad-return" % name, repr(o.value)[:200], case)]
    if X.shape != W.shape:
        return [Failure("%s:shape" % name, "%s" % (X.shape,), case)]

    d0, d1 = _signed_deg(W0), _signed_deg(X)
    names = ["positive in-degree", "positive out-degree", "negative in-degree", "negative out-degree"]
    for k in range(4):
        if not np.array_equal(d0[k], d1[k]):
            v = int(np.argmax(d0[k] != d1[k]))
            fails.append(Failure("%s:signed-degree-changed" % name, "node %d: %s %d -> %d" % (v, names[k], d0[k][v], d1[k][v]), case))
            break
    wp0, wp1 = np.sort(W0[W0 > 0]), np.sort(X[X > 0])
    wn0, wn1 = np.sort(W0[W0 < 0]), np.sort(X[X < 0])
    if wp0.shape != wp1.shape or not np.array_equal(wp0, wp1):
        fails.append(Failure("%s:positive-weight-multiset-changed" % name, "%d positive weights -> %d" % (len(wp0), len(wp1)), case))
    if wn0.shape != wn1.shape or not np.array_equal(wn0, wn1):
        fails.append(Failure("%s:negative-weight-multiset-changed" % name, "%d negative weights -> %d (sum %r -> %r)" % (len(wn0), len(wn1), wn0.sum(), wn1.sum()), case))
    if np.any(np.diag(X) != 0):
        fails.append(Failure("%s:diagonal-not-empty" % name, "", case))
    if und and not np.array_equal(X, X.T):
        fails.append(Failure("%s:not-symmetric" % name, "", case))
    if (not null) and (case["itr"] == 0 or extra == 0) and not np.array_equal(X, W0):
        fails.append(Failure("%s:changed-although-nothing-rewired" % name, "itr=%s eff=%s" % (case["itr"], extra), case))
    if null:
        try:
            r = [float(x) for x in extra]
        except Exception:
            fails.append(Failure("%s:bad-correlation-tuple" % name, repr(extra)[:100], case))
            r = None
        if r is not None:
            want = [_corr(np.sum(W0 * (W0 > 0), axis=0), np.sum(X * (X > 0), axis=0)),
                    _corr(np.sum(W0 * (W0 > 0), axis=1), np.sum(X * (X > 0), axis=1)),
                    _corr(np.sum(-W0 * (W0 < 0), axis=0), np.sum(-X * (X < 0), axis=0)),
                    _corr(np.sum(-W0 * (W0 < 0), axis=1), np.sum(-X * (X < 0), axis=1))]
            if len(r) != 4:
                fails.append(Failure("%s:bad-correlation-tuple" % name, repr(extra)[:100], case))
            else:
                for k in range(4):
                    a, b = r[k], want[k]
                    if (np.isnan(a) and np.isnan(b)) or np.isclose(a, b, rtol=1e-9, atol=1e-12):
                        continue
                    fails.append(Failure("%s:returned-correlation-wrong" % name,
                                         "component %d: returned %r, corrcoef(input strengths, output strengths) = %r" % (k, a, b), case))
                    break
    const = all(len(set(v.tolist())) == 1 for v in d0)
    if not np.array_equal(X, W0) and not const:
        ctx.mark_nontrivial(case)
    if np.any(np.diag(W) != 0):
        ctx.label("nonzero-input-diagonal")
    if np.sum(W0 > 0) == n * (n - 1):
        ctx.label("full-positive-support")
    return fails


@st.composite
def cases(draw, name, nmax):
    und = "_und" in name
    null = name.startswith("null_model")
    n = draw(st.integers(4, nmax))
    dens = draw(st.sampled_from(["sparse", "medium", "dense", "full"]))
    if dens == "full":
        A = gen.complete_adj(n)
    else:
        A = draw(gen.er_adj(n, not und, dens))
    A = A.copy()
    # at least one positive and one negative connection on disjoint cells, by construction
    A[0, 1] = True
    A[2, 3] = True
    if und:
        A[1, 0] = True
        A[3, 2] = True
    W = draw(gen.weights_for(A, "signed", not und))
    allpos = dens == "full" and draw(st.integers(0, 3)) == 0
    if allpos:
        W = np.abs(W)
    else:
        W[0, 1] = abs(W[0, 1])
        W[2, 3] = -abs(W[2, 3])
        if und:
            W[1, 0] = W[0, 1]
            W[3, 2] = W[2, 3]
    if not und and np.array_equal(W, W.T):
        # genuinely asymmetric by construction
        W[1, 0] = 0.0 if W[1, 0] != 0 else 0.5
    if null and draw(st.integers(0, 2)) == 0:
        d = draw(st.lists(st.integers(-4, 4), min_size=n, max_size=n))
        for i, v in enumerate(d):
            W[i, i] = v / 8.0
    if draw(st.booleans()):
        W = gen.apply_perm(W, draw(gen.perm(n)))
    # weight scales: some connections may be very weak (2^-30 < 1e-8): still connections, exact in binary floating point
    scale = draw(st.sampled_from(["unit", "tiny-some", "unit", "tiny-all", "large"]))
    if scale == "tiny-all":
        W = W * 2.0 ** -30
    elif scale == "large":
        W = W * 1024.0
    elif scale == "tiny-some":
        pr = [(i, j) for (i, j) in gen.pairs(n, not und) if W[i, j] != 0]
        pick = draw(st.lists(st.booleans(), min_size=len(pr), max_size=len(pr)))
        for (i, j), b in zip(pr, pick):
            if b:
                W[i, j] *= 2.0 ** -30
                if und:
                    W[j, i] = W[i, j]
    dtype = "float64"
    if null and scale == "unit" and draw(st.integers(0, 3)) == 0:
        # nearly regular signed strengths: circulant support, signs by offset, all magnitudes within 1e-8 of each other (1024 + k 2^-20:
        # every strength is an exact sum). The strength sequences then vary in their 9th digit only.
        n = len(W)
        W = np.zeros((n, n))
        kk = draw(st.lists(st.integers(0, 7), min_size=n * 4, max_size=n * 4))
        it = iter(kk)
        for off_, sg in ((1, 1.0), (2, -1.0)) if n >= 5 else ((1, 1.0),):
            for i in range(n):
                j = (i + off_) % n
                v = sg * (1024.0 + next(it) * 2.0 ** -20)
                W[i, j] = v
                if und:
                    W[j, i] = v
                else:
                    W[j, i] = sg * (1024.0 + next(it) * 2.0 ** -20)
        if not und and np.array_equal(W, W.T):
            W[0, 1] = 1024.0 + 2.0 ** -18
        scale = "offset-regular"
    elif (not null) and scale == "unit" and draw(st.integers(0, 2)) == 0:
        # integer weights near the end of a narrow integer type's range (products of two weights do not fit)
        dtype = draw(st.sampled_from(["int8", "int16", "int32", "int64"]))
        top = {"int8": 120, "int16": 30000, "int32": 2 ** 31 - 1000, "int64": 2 ** 62}[dtype]
        mag = np.round(np.abs(W) * 8)           # 1..8
        W = np.sign(W) * (top - mag * (top // 16))
        scale = "integer-" + dtype
    case = {"fn": name, "W": W, "itr": draw(st.sampled_from([2, 1, 5, 0])), "seed": draw(gen.seeds()),
            "order": draw(st.sampled_from(gen.ORDERS)), "scale": scale, "dtype": dtype}
    if null:
        case["wei_freq"] = draw(st.sampled_from([0.5, 0, 1, 0.25, 0.1, 0.9, 0.7, 0.4, 0.3, 0.15, 0.35, 0.05, 0.6]))
    return case


def units(tier):
    nmax = 10 if tier == "quick" else 18
    return [Unit(name, check, strategy=(lambda nm=name: cases(nm, nmax)), examples=(1600, 32000), shards=(4, 16))
            for name in ("randmio_und_signed", "randmio_dir_signed", "null_model_und_sign", "null_model_dir_sign")] + [
        Unit("%s-n<=32" % name, check, strategy=(lambda nm=name: cases(nm, 32)), examples=(24, 400), shards=(4, 4))
        for name in ("randmio_und_signed", "randmio_dir_signed", "null_model_und_sign", "null_model_dir_sign")]
