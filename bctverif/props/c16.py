"""C16 -- connected components are exactly the classes of mutually reachable nodes."""
import numpy as np
from hypothesis import strategies as st

import bct
from bct.utils import BCTParamError

from .. import gen
from ..core import Failure, Unit
from ..oracles import graph as og

PROPERTY = "C16"
RULE = ("Cases = symmetric matrices (binary / positive / signed weights incl. +-1, arbitrary diagonal) from: complete enumeration of all "
        "labelled graphs up to n (exhaustive units), and Hypothesis strategies over forests, graphs with isolated "
        "nodes, sparse ER, structured families and 'late-merge' graphs (chains on low-index nodes joined only by edges "
        "among high-index nodes, labels optionally shuffled), plus asymmetric matrices (asymmetric support, or symmetric support with unequal weights) for the rejection clause. "
        "Oracle = BFS components of the symmetric support. Non-trivial = the graph has 2 <= m < n components and a "
        "component with >= 3 nodes (or, for rejection cases, the matrix is genuinely asymmetric); distinct by hash of the matrix.")
BOUNDS = {"exhaustive_quick": "graphs n<=5", "exhaustive_thorough": "graphs n<=7", "random_n": "2..40"}
# units additionally driven by libFuzzer coverage feedback through hypothesis.fuzz_one_input (bctverif/fuzz.py)
FUZZ_UNITS = {"quick": ["random-n<=14"], "thorough": ["random-n<=14"]}
MIN_NONTRIVIAL = {"quick": 200, "thorough": 2000}


def _comembership(lab):
    lab = np.asarray(lab)
    return lab[:, None] == lab[None, :]


def check(case, ctx):
    A = gen.layout(np.array(case["A"]), case.get("order"))
    if case.get("dtype"):
        A = gen.layout(np.array(case["A"]).astype(case["dtype"]), case.get("order"))
        ctx.label("dtype:" + case["dtype"])
    n = len(A)
    fails = []
    A0 = A.copy()
    sym = bool(np.all(A == A.T))
    tkw = {"timeout": case["timeout"]} if case.get("timeout") else {}
    out = ctx.call(bct.get_components, A, **tkw)
    if not sym:
        ctx.label("asymmetric")
        ctx.mark_nontrivial(case)
        if out.status != "reject":
            fails.append(Failure("get_components:asymmetric-not-rejected",
                                 "asymmetric input gave %r instead of BCTParamError" % (out,), case))
        o2 = ctx.call(bct.number_of_components, A)
        if o2.status != "reject":
            fails.append(Failure("number_of_components:asymmetric-not-rejected",
                                 "asymmetric input gave %r instead of BCTParamError" % (o2,), case))
        return fails
    if out.status == "timeout":
        return fails
    if not out.ok:
        return [Failure("crash:get_components:%s" % out.exc_name(), "symmetric input raised %r" % (out.exc,), case)]
    try:
        comps, sizes = out.value
        comps = np.asarray(comps)
        sizes = np.asarray(sizes)
    except Exception as e:
        return [Failure("get_components:bad-return", "unexpected return value: %r" % (e,), case)]
    comps_then, sizes_then = comps.copy(), sizes.copy()
    ref, m = og.components_und(A)
    ref = np.array(ref)
    # classes for the evidence
    csz = np.bincount(ref)
    if 2 <= m < n and csz.max() >= 3:
        ctx.mark_nontrivial(case)
    ctx.label("components=%s" % ("1" if m == 1 else "n" if m == n else "mid"))
    if np.any(np.diag(A) != 0):
        ctx.label("nonzero-diagonal")
    if np.any(csz == 1):
        ctx.label("has-isolated")
    ctx.label("family:" + case.get("family", "?"))

    if comps.shape != (n,):
        fails.append(Failure("get_components:label-vector-shape", "labels have shape %s for n=%d" % (comps.shape, n), case))
        return fails
    if not np.all(comps == np.round(comps)):
        fails.append(Failure("get_components:labels-not-integer", "labels %s" % comps, case))
    if not np.array_equal(_comembership(comps), _comembership(ref)):
        fails.append(Failure("get_components:comembership-differs-from-bfs",
                             "labels %s vs BFS components %s" % (comps.tolist(), ref.tolist()), case))
    if set(comps.tolist()) != set(range(1, m + 1)) and not fails:
        fails.append(Failure("get_components:labels-not-1..m", "labels used %s, m=%d" % (sorted(set(comps.tolist())), m), case))
    labs = sorted(set(comps.tolist()))
    if labs == list(range(1, len(labs) + 1)):
        want = [int(np.sum(comps == l)) for l in labs]
        if sizes.shape != (len(labs),) or sizes.tolist() != want:
            fails.append(Failure("get_components:sizes-wrong", "sizes %s, counts per label %s" % (sizes.tolist(), want), case))
    o2 = ctx.call(bct.number_of_components, A, **tkw)
    if o2.ok:
        if o2.value != m:
            fails.append(Failure("number_of_components:wrong", "returned %r, BFS says %d" % (o2.value, m), case))
    elif o2.status != "timeout":
        fails.append(Failure("crash:number_of_components:%s" % o2.exc_name(), repr(o2.exc), case))
    if not np.array_equal(A, A0):
        fails.append(Failure("get_components:argument-modified", "input changed", case))

    # agreement with the distance routines on the same network
    off = ~np.eye(n, dtype=bool)
    same = _comembership(comps)
    for name in ("distance_bin", "breadthdist", "reachdist"):
        if name == "breadthdist" and n > 400:
            continue        # one interpreted breadth-first search per node: minutes at this size
        o = ctx.call(getattr(bct, name), A.copy(), **tkw)
        if o.status == "timeout":
            continue
        if not o.ok:
            fails.append(Failure("crash:%s:%s" % (name, o.exc_name()), repr(o.exc), case))
            continue
        D = o.value if name == "distance_bin" else o.value[1]
        D = np.asarray(D, dtype=float)
        fin = np.isfinite(D)
        if not np.array_equal(fin[off], same[off]):
            u, v = np.argwhere((fin != same) & off)[0]
            fails.append(Failure("%s:finite-distance-disagrees-with-components" % name,
                                 "pair (%d,%d): D=%s, same component=%s" % (u, v, D[u, v], bool(same[u, v])), case))
    # what the caller still holds: the label vector and the sizes returned at the top, after all the later calls and one more on another network
    ctx.call(bct.get_components, np.ones((max(n - 1, 1), max(n - 1, 1))) - np.eye(max(n - 1, 1)))
    ctx.call(bct.number_of_components, np.zeros((n + 1, n + 1)))
    if not fails and (not np.array_equal(comps, comps_then) or not np.array_equal(sizes, sizes_then)):
        fails.append(Failure("get_components:result-held-by-caller-changed-by-a-later-call",
                             "labels read %s when returned and %s after later calls" % (comps_then.tolist(), comps.tolist()), case))
    # history: the SAME array object is edited in place (one node cut off) and handed in again
    cut = case.get("cut")
    if sym and cut is not None and n > cut and not fails:
        X = gen.layout(np.array(A, dtype=float), case.get("order"))
        for f in (bct.get_components, bct.number_of_components, bct.distance_bin, bct.breadthdist, bct.reachdist):
            ctx.call(f, X)
        X[cut, :] = 0
        X[:, cut] = 0
        ref2, m2 = og.components_und(X)
        ref2 = np.array(ref2)
        o = ctx.call(bct.get_components, X)
        if o.ok:
            c2 = np.asarray(o.value[0])
            if c2.shape != (n,) or not np.array_equal(_comembership(c2), _comembership(ref2)) or len(o.value[1]) != m2:
                fails.append(Failure("get_components:stale-answer-after-in-place-edit",
                                     "same array object, node %d cut off in place: labels %s vs BFS %s" % (cut, c2.tolist(), ref2.tolist()), case))
        o = ctx.call(bct.number_of_components, X)
        if o.ok and o.value != m2:
            fails.append(Failure("number_of_components:stale-answer-after-in-place-edit", "%r vs %d" % (o.value, m2), case))
        same2 = _comembership(ref2)
        for name in ("distance_bin", "breadthdist", "reachdist"):
            o = ctx.call(getattr(bct, name), X)
            if o.ok:
                D = np.asarray(o.value if name == "distance_bin" else o.value[1], dtype=float)
                if not np.array_equal(np.isfinite(D)[off], same2[off]):
                    fails.append(Failure("%s:stale-answer-after-in-place-edit" % name, "node %d cut off in place" % cut, case))
    return fails


# ----------------------------------------------------------------------
@st.composite
def late_merge(draw, nmax):
    k = draw(st.integers(2, 5))
    lens = draw(st.lists(st.integers(1, 3), min_size=k, max_size=k))
    # chains occupy low indices; each chain ends in one dedicated high-index node;
    # the high-index nodes are then joined among themselves
    low = sum(lens)
    n = low + k
    A = np.zeros((n, n), dtype=bool)
    pos = 0
    for c, L in enumerate(lens):
        for t in range(L - 1):
            A[pos + t, pos + t + 1] = A[pos + t + 1, pos + t] = True
        A[pos + L - 1, low + c] = A[low + c, pos + L - 1] = True
        pos += L
    joins = draw(st.lists(st.tuples(st.integers(0, k - 1), st.integers(0, k - 1)), min_size=1, max_size=k))
    for a, b in joins:
        if a != b:
            A[low + a, low + b] = A[low + b, low + a] = True
    return A


@st.composite
def cases(draw, nmax):
    fam = draw(st.sampled_from(["late_merge", "er", "forest", "isolated", "asym-weights", "clique+chain", "structured", "asym", "copies_er", "late_merge", "inf-weights"]))
    if fam == "inf-weights":
        # some connections carry an infinite weight (e.g. 1/0 similarities): still connections, for every routine alike
        n = draw(st.integers(3, min(nmax, 10)))
        A = draw(gen.tree_adj(n)) if draw(st.booleans()) else draw(gen.er_adj(n, False, "sparse"))
        W = draw(gen.weights_for(A, "dyadic", False))
        pr = [(i, j) for (i, j) in gen.pairs(n, False) if A[i, j]]
        pick = draw(st.lists(st.integers(0, 3), min_size=len(pr), max_size=len(pr)))
        for (i, j), b in zip(pr, pick):
            if b == 0:
                W[i, j] = W[j, i] = np.inf
            elif b == 1:
                W[i, j] = W[j, i] = -np.inf
        if draw(st.booleans()):
            W = gen.apply_perm(W, draw(gen.perm(n)))
        return {"A": W, "family": fam, "order": draw(st.sampled_from(gen.ORDERS)), "cut": None}
    if fam == "er":
        n = draw(st.integers(2, nmax))
        A = draw(gen.er_adj(n, False, draw(st.sampled_from(["sparse", "sparse", "medium"]))))
    elif fam == "forest":
        k = draw(st.integers(2, 4))
        parts = [draw(gen.tree_adj(draw(st.integers(1, max(1, nmax // k))))) for _ in range(k)]
        A = gen.block_diag(*parts)
    elif fam == "isolated":
        n = draw(st.integers(2, nmax))
        B = draw(gen.er_adj(n, False, "sparse"))
        iso = draw(st.lists(st.integers(0, n - 1), min_size=1, max_size=3))
        for v in iso:
            B[v, :] = False
            B[:, v] = False
        A = B
    elif fam == "late_merge":
        A = draw(late_merge(nmax))
    elif fam == "structured":
        A, _ = draw(gen.structured_adj(3, min(nmax, 12)))
    elif fam == "copies_er":
        m = draw(st.integers(2, max(2, nmax // 3)))
        A = gen.block_diag(draw(gen.er_adj(m, False, "medium")), draw(gen.er_adj(m, False, "sparse")),
                           draw(gen.tree_adj(m)))
    elif fam == "clique+chain":
        # a dense component next to a component with a very long shortest path (walk counts explode while the search is still running)
        big = nmax >= 30
        c = draw(st.integers(10, 20)) if big else draw(st.integers(3, max(3, nmax // 3)))
        L = draw(st.integers(30, 45)) if big else draw(st.integers(2, max(2, nmax - c)))
        A = gen.block_diag(gen.complete_adj(c), gen.path_adj(L))
    elif fam == "asym-weights":
        # symmetric support, unequal weights on the two directions of one connection
        n = draw(st.integers(2, min(nmax, 10)))
        A = draw(gen.er_adj(n, False, "medium"))
        A[0, 1] = A[1, 0] = True
    else:  # asym
        n = draw(st.integers(2, min(nmax, 10)))
        A = draw(gen.er_adj(n, True, "medium"))
        if np.array_equal(A, A.T):   # force asymmetry by construction
            A = A.copy()
            A[0, 1] = not A[1, 0]
    n = len(A)
    if fam == "asym-weights":
        W = draw(gen.weights_for(A, draw(st.sampled_from(["dyadic", "signed"])), False))
        W[0, 1] = 0.75
        # clearly different, or different by a hair (one ulp, 1e-10 relative): still not an undirected network
        W[1, 0] = draw(st.sampled_from([float(np.nextafter(0.75, 1.0)), 0.25, 0.75 * (1 + 1e-10), -0.75, 0.75 + 1e-9, 0.5]))
        if draw(st.booleans()):
            W = gen.apply_perm(W, draw(gen.perm(n)))
    elif fam != "asym":
        if draw(st.booleans()):
            A = gen.apply_perm(A, draw(gen.perm(n)))
        wk = draw(st.sampled_from(["bin", "dyadic", "int", "signed", "pm1"]))
        if wk == "pm1":
            W = np.sign(draw(gen.weights_for(A, "signed", False)))
        else:
            W = draw(gen.weights_for(A, wk, False))
    else:
        W = draw(gen.weights_for(A, draw(st.sampled_from(["bin", "dyadic"])), True))
    dg = draw(st.sampled_from(["zero", "zero", "full", "mixed"]))
    W = W.copy()
    if dg == "full":
        np.fill_diagonal(W, 1)
    elif dg == "mixed":
        bits = draw(st.lists(st.booleans(), min_size=n, max_size=n))
        for i, b in enumerate(bits):
            if b:
                W[i, i] = 1 if W.dtype.kind == "i" else 0.5
    case = {"A": W, "family": fam, "order": draw(st.sampled_from(gen.ORDERS)), "cut": draw(st.integers(0, 3))}
    if np.all((W == 0) | (W == 1)):
        case["dtype"] = draw(st.sampled_from(gen.BINARY_DTYPES))
    return case


@st.composite
def huge_cases(draw):
    """connected two-colourable networks of a few hundred nodes (walks of one fixed length never cover all pairs), and two hubs sharing
    exactly 256 / 512 neighbours (walk counts at the wrap-around of 8-bit counters)"""
    fam = draw(st.sampled_from(["star", "two-hubs", "clique+long-chain", "even-ring", "double-star", "two-hubs"]))
    if fam == "clique+long-chain":
        # walk counts inside the clique pass 1e308 while the chain (another component) is still being explored
        A = gen.block_diag(gen.complete_adj(draw(st.integers(45, 55))), gen.path_adj(draw(st.integers(190, 200))))
    elif fam == "star":
        A = gen.star_adj(draw(st.integers(300, 420)))
    elif fam == "even-ring":
        A = gen.ring_adj(2 * draw(st.integers(100, 130)))
    elif fam == "double-star":
        a = draw(st.integers(150, 200))
        A = gen.block_diag(gen.star_adj(a), gen.star_adj(draw(st.integers(150, 200))))
        if draw(st.booleans()):
            A[0, a] = A[a, 0] = True
    else:
        m = draw(st.sampled_from([256, 512, 255, 257]))
        n = 2 + m + draw(st.integers(0, 3))
        A = np.zeros((n, n), dtype=bool)
        A[0, 2:2 + m] = A[2:2 + m, 0] = True
        A[1, 2:2 + m] = A[2:2 + m, 1] = True
    n = len(A)
    if draw(st.booleans()):
        A = gen.apply_perm(A, draw(gen.perm(n)))
    return {"A": A.astype(float), "family": "huge-" + fam, "order": draw(st.sampled_from(gen.ORDERS)), "cut": None, "timeout": 40.0,
            "dtype": draw(st.sampled_from(["float64", "uint8", "int64", "float64"]))}


_SPACES = {}


def _space(tier):
    if tier not in _SPACES:
        nmax = 5 if tier == "quick" else 7
        _SPACES[tier] = gen.GraphSpace([(n, False) for n in range(1, nmax + 1)])
    return _SPACES[tier]


def _exh_cases(tier, lo, hi):
    for n, d, A, k in _space(tier).range(lo, hi):
        yield {"A": A.astype(float) if k % 3 else A.copy(), "family": "exhaustive", "order": gen.ORDERS[k % len(gen.ORDERS)], "cut": (k % 4 if k % 5 == 0 else None)}


def units(tier):
    return [
        Unit("exhaustive-graphs", check, count=lambda t: _space(t).total, cases=_exh_cases,
             shards=(4, 16), space=_space(tier).describe() + ", empty diagonal, 0/1 float64"),
        Unit("random-n<=14", check, strategy=lambda: cases(14), examples=(5000, 75000), shards=(8, 16)),
        Unit("random-n<=40", check, strategy=lambda: cases(40), examples=(1200, 24000), shards=(8, 16)),
        Unit("random-n<=65", check, strategy=lambda: cases(65), examples=(64, 1200), shards=(16, 16)),
        Unit("huge-structured", check, strategy=huge_cases, examples=(24, 96), shards=(12, 16)),
    ]
