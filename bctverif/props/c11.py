"""C11 -- constrained rewiring honours connectivity, lattice cost and forbidden cells."""
import numpy as np
from hypothesis import strategies as st

import bct

from .. import gen, rewire
from ..core import Failure, Unit
from ..oracles import graph as og

PROPERTY = "C11"
RULE = ("Cases = (routine, matrix, parameters, seed). Connected variants: connected trees + 0..3 chords, rings, barbells (undirected) / directed "
        "rings + chords and two directed cycles sharing a node (strongly connected by construction), binary or dyadic weights (also nearly equal weights 1 + k 2^-20 and everything times 2^-40), shuffled labels, "
        "itr in {1,2,5}, D None or random symmetric integer matrix stored as float64 / int64 / uint8 / uint16; masks of ones, booleans, fractions, or +1/-1 entries summing to zero. Rejection inputs: disconnected symmetric and asymmetric matrices for the "
        "undirected variants. latmio_und/latmio_dir on arbitrary graphs for the cost clause; randomize_graph_partial_und with random masks. "
        "Oracle = own BFS (strong) connectivity of the output and, through the BCTPY_VERIF hook, after EVERY accepted swap; total of weight x "
        "distance-to-diagonal never increases (end to end and swap by swap, exact arithmetic); no new connection in a masked cell. "
        "Non-trivial = (connected variants) at least one swap carried out AND the input is fragile: some degree-valid swap of the input would "
        "disconnect it (decided by enumerating all candidate swaps); (cost) eff>=1; (mask) a masked cell exists and the output differs from the "
        "input; (rejection) every such case. Distinct by hash of the case.")
BOUNDS = {"n": "5..12 quick, 5..20 thorough; up to 32 in the large unit", "itr": [1, 2, 5]}
MIN_NONTRIVIAL = {"quick": 250, "thorough": 2500}


def _connected(X, directed):
    return og.is_strongly_connected(X) if directed else og.is_connected_und(X)


def _fragile(W, directed):
    """Some degree-valid swap of the input would disconnect it."""
    A = (W != 0)
    n = len(A)
    E = [(i, j) for i in range(n) for j in range(n) if A[i, j]]
    for (a, b) in E:
        for (c, d) in E:
            if len({a, b, c, d}) != 4 or A[a, d] or A[c, b]:
                continue
            X = A.copy()
            X[a, b] = False
            X[c, d] = False
            X[a, d] = True
            X[c, b] = True
            if not directed:
                X[b, a] = False
                X[d, c] = False
                X[d, a] = True
                X[b, c] = True
            if not _connected(X, directed):
                return True
    return False


def _circular(n):
    idx = np.arange(n)
    off = np.abs(idx[:, None] - idx[None, :])
    return np.minimum(off, n - off).astype(float)


def check(case, ctx):
    name = case["fn"]
    W = np.array(case["W"], dtype=float)
    n = len(W)
    seed = case["seed"]
    fn = getattr(bct, name)
    directed = name in rewire.DIR
    fails = []
    ctx.label("fn:" + name)
    kind = case.get("kind", "rewire")
    ctx.label("kind:" + kind)

    if kind == "reject-seq":
        # history: a valid call, then the SAME array object is edited in place into a disconnected network, then a second call
        o1 = ctx.call(fn, W, case["itr"], seed=seed)
        if o1.status == "timeout":
            return fails
        v = int(case["cut"])
        W[v, :] = 0
        W[:, v] = 0
        ctx.mark_nontrivial(case)
        o2 = ctx.call(fn, W, case["itr"], seed=seed)
        if o2.status == "timeout":
            return fails
        if o2.status != "reject":
            fails.append(Failure("%s:invalid-input-not-rejected-after-earlier-valid-call" % name,
                                 "after a valid call the same array was disconnected in place (node %d isolated); the second call gave %r "
                                 "instead of BCTParamError" % (v, o2), case))
        return fails

    if kind == "reject":
        W0 = W.copy()
        args = (W, case["itr"])
        o = ctx.call(fn, *args, seed=seed)
        ctx.mark_nontrivial(case)
        if o.status == "timeout":
            return fails
        if o.status != "reject":
            fails.append(Failure("%s:invalid-input-not-rejected" % name,
                                 "%s input gave %r instead of BCTParamError" % (case["why"], o), case))
        if not np.array_equal(W, W0):
            fails.append(Failure("%s:rejected-input-modified" % name, "", case))
        return fails

    if name == "randomize_graph_partial_und":
        B = np.array(case["B"], dtype=float)
        if case.get("B_kind") == "bool":
            B = B != 0
        ctx.label("mask:" + str(case.get("B_kind", "ones")))
        with rewire.SwapRecorder() as rec:
            o = ctx.call(fn, gen.layout(W.copy(), case.get("order")), B, case["maxswap"], seed=seed, timeout=1.5)
        if o.status == "timeout":
            return fails
        if not o.ok:
            return [Failure("crash:%s:%s" % (name, o.exc_name()), repr(o.exc)[:200], case)]
        X = np.asarray(o.value, dtype=float)
        # a connection was "created" in a cell if the cell is occupied now and either was empty before or carries another
        # connection's weight (the original one was swapped away and a different one was put there)
        new = (X != 0) & ((W == 0) | (X != W))
        if np.any(new & (B != 0)):
            u, v = np.argwhere(new & (B != 0))[0]
            fails.append(Failure("%s:connection-created-in-masked-cell" % name, "cell (%d,%d): %r -> %r under a nonzero mask" % (u, v, W[u, v], X[u, v]), case))
        prev = W
        for t, ev in enumerate(rec.events):
            ctx.hook_events += 1
            R = ev["R"]
            placed = (R != 0) & (prev == 0)          # cells filled by this very swap
            if np.any(placed & (B != 0)):
                u, v = np.argwhere(placed & (B != 0))[0]
                fails.append(Failure("%s:step-connection-created-in-masked-cell" % name,
                                     "accepted swap #%d placed a connection in masked cell (%d,%d)" % (t + 1, u, v), case))
                break
            prev = R
        if np.any(B != 0) and not np.array_equal(X, W):
            ctx.mark_nontrivial(case)
        return fails

    latt = name in rewire.LATMIO
    D = case.get("D")
    D = None if D is None else np.array(D, dtype=float)
    ctx.label("weights:" + str(case.get("weights", "dyadic")))
    if D is not None:
        ctx.label("D-dtype:" + case.get("D_dtype", "float64"))
    with rewire.SwapRecorder() as rec:
        if latt:
            o = ctx.call(fn, gen.layout(W.astype(case.get("W_dtype", "float64")), case.get("order")), case["itr"], D=(None if D is None else D.astype(case.get("D_dtype", "float64"))), seed=seed)
        else:
            o = ctx.call(fn, gen.layout(W.copy(), case.get("order")), case["itr"], seed=seed)
    if o.status == "timeout":
        return fails
    if o.status == "reject":
        if name in rewire.CONNECTED and not directed:
            fails.append(Failure("%s:connected-symmetric-input-rejected" % name, repr(o.exc), case))
        return fails
    if not o.ok:
        return [Failure("crash:%s:%s" % (name, o.exc_name()), repr(o.exc)[:200], case)]
    try:
        if latt:
            Rlatt, Rrp, ind_rp, eff = o.value
            Rlatt, Rrp, ind_rp = np.asarray(Rlatt, dtype=float), np.asarray(Rrp, dtype=float), np.asarray(ind_rp)
            X = Rrp
        else:
            X, eff = o.value
            X = np.asarray(X, dtype=float)
            ind_rp = None
    except Exception:
        return [Failure("%s:bad-return" % name, repr(o.value)[:200], case)]
    ctx.hook_events += len(rec.events)

    if name in rewire.CONNECTED:
        if not _connected(X, directed):
            fails.append(Failure("%s:output-disconnected" % name,
                                 "input %s connected, output is not" % ("strongly" if directed else ""), case))
        if latt and Rlatt.shape == W.shape and not _connected(Rlatt, directed):
            fails.append(Failure("%s:output-disconnected" % name, "Rlatt (original order) is not connected", case))
        for t, ev in enumerate(rec.events):
            if not _connected(ev["R"], directed):
                fails.append(Failure("%s:step-disconnected" % name,
                                     "network disconnected after accepted swap #%d of %d (e1=%d,e2=%d)" % (t + 1, len(rec.events), ev["e1"], ev["e2"]), case))
                break
        if eff >= 1 and _fragile(W, directed):
            ctx.mark_nontrivial(case)
            ctx.label("fragile+moved")
    if latt:
        if sorted(ind_rp.tolist()) == list(range(n)):
            Win = W[np.ix_(ind_rp, ind_rp)]
            if D is not None:
                Duse = D
            elif rec.events and "D" in rec.events[0]:
                Duse = np.asarray(rec.events[0]["D"], dtype=float)
                if Duse.shape != (n, n) or not np.array_equal(Duse, _circular(n)):
                    ctx.notes["default-D-differs-from-circular-distance"] += 1
            else:
                Duse = _circular(n)
            c_in = float(np.sum(Duse * Win))
            c_out = float(np.sum(Duse * Rrp)) if Rrp.shape == W.shape else None
            if c_out is not None and c_out > c_in:
                fails.append(Failure("%s:lattice-cost-increased" % name, "sum(D*R): %r -> %r" % (c_in, c_out), case))
            prev = c_in
            for t, ev in enumerate(rec.events):
                c = float(np.sum(Duse * ev["R"]))
                if c > prev:
                    fails.append(Failure("%s:step-lattice-cost-increased" % name, "accepted swap #%d raised sum(D*R) from %r to %r" % (t + 1, prev, c), case))
                    break
                prev = c
            if name not in rewire.CONNECTED and eff >= 1:
                ctx.mark_nontrivial(case)
    return fails


# ----------------------------------------------------------------------
@st.composite
def cases(draw, names, nmax):
    name = draw(st.sampled_from(names))
    directed = name in rewire.DIR
    connected = name in rewire.CONNECTED
    seed = draw(gen.seeds())
    if connected and not directed and draw(st.integers(0, 11)) == 0:
        A, fam = draw(rewire.und_adj(5, nmax, True))
        A = rewire.shuffle(draw, A)
        W = draw(gen.weights_for(A, draw(st.sampled_from(["bin", "dyadic"])), False))
        return {"fn": name, "kind": "reject-seq", "W": W, "itr": 1, "seed": seed, "cut": draw(st.integers(0, len(W) - 1))}
    if connected and not directed and draw(st.integers(0, 9)) == 0:
        # rejection inputs
        why = draw(st.sampled_from(["disconnected", "asymmetric", "nearly-symmetric"]))
        if why == "disconnected":
            m1 = draw(st.integers(2, max(2, nmax // 2)))
            m2 = draw(st.integers(2, max(2, nmax // 2)))
            A = gen.block_diag(draw(gen.tree_chords_adj(m1)), draw(gen.tree_chords_adj(m2)))
            A = rewire.shuffle(draw, A)
            W = draw(gen.weights_for(A, draw(st.sampled_from(["bin", "dyadic"])), False))
        elif why == "nearly-symmetric":
            # connected, symmetric support, one weight larger than its mirror by 1e-7 relative: not an undirected network
            A, _ = draw(rewire.und_adj(5, min(nmax, 10), True))
            A = rewire.shuffle(draw, A)
            W = draw(gen.weights_for(A, "dyadic", False))
            i, j = [int(v) for v in np.argwhere(np.triu(W, 1) != 0)[0]]
            W[i, j] = W[i, j] * (1 + draw(st.sampled_from([1e-7, 2.0 ** -30, 1e-9])))
        else:
            A, _ = draw(rewire.dir_adj(4, min(nmax, 8), True))
            W = draw(gen.weights_for(A, "bin", True))
            if np.array_equal(W, W.T):
                W[0, 1] = 1.0 - W[1, 0]
        return {"fn": name, "kind": "reject", "why": why, "W": W, "itr": draw(st.sampled_from([0, 1, 2])), "seed": seed}
    if name == "randomize_graph_partial_und":
        from . import c01
        c = draw(c01.cases([name], nmax))
        c["kind"] = "mask"
        # what a mask entry looks like: any nonzero value forbids the cell (also negative ones, also when they sum to zero)
        bk = draw(st.sampled_from(["signed-balanced", "ones", "bool", "fractions", "signed-balanced"]))
        B = np.array(c["B"], dtype=float)
        if bk == "signed-balanced":
            cells = [(i, j) for (i, j) in gen.pairs(len(B), False) if B[i, j] != 0]
            if len(cells) % 2:
                i, j = cells.pop()
                B[i, j] = B[j, i] = 0
            for q, (i, j) in enumerate(cells):
                B[i, j] = B[j, i] = 1.0 if q % 2 == 0 else -1.0
        elif bk == "fractions":
            B = B * 0.25
        c["B"] = B
        c["B_kind"] = bk
        return c
    if directed and connected and draw(st.integers(0, 3)) == 0:
        # nearly complete digraph: a small set S of nodes that the rest reaches through a single arc (all other arcs into S removed),
        # and a few more arcs missing -- dense, strongly connected, and one swap away from losing that
        n = draw(st.integers(4, min(nmax, 7)))
        A = gen.complete_adj(n).copy()
        ssz = draw(st.integers(1, 2))
        keep = (draw(st.integers(ssz, n - 1)), draw(st.integers(0, ssz - 1)))
        for t in range(ssz, n):
            for s_ in range(ssz):
                if (t, s_) != keep:
                    A[t, s_] = False
        if ssz == 2 and n >= 4 and draw(st.booleans()):
            # make the single entry arc exchangeable: its source lacks one arc inside the rest, the other node of S lacks its arc to the entry node
            t_, s_ = keep
            d_ = draw(st.sampled_from([v for v in range(ssz, n) if v != t_]))
            A[t_, d_] = False
            A[1 - s_, s_] = False
        for _ in range(draw(st.integers(0, 2))):
            a, b = draw(st.integers(0, n - 1)), draw(st.integers(0, n - 1))
            if a != b and (a, b) != keep:
                A[a, b] = False
        if not og.is_strongly_connected(A):
            A = gen.complete_adj(n).copy()
            A[n - 1, 0] = False
        fam = "dense-digraph"
    elif directed:
        A, fam = draw(rewire.dir_adj(5, nmax, connected))
    else:
        A, fam = draw(rewire.und_adj(5, nmax, connected))
    A = rewire.shuffle(draw, A)
    n = len(A)
    wk = draw(st.sampled_from(["dyadic", "bin", "near-equal", "tiny", "near-equal-tiny"]))
    W = draw(gen.weights_for(A, "bin" if wk == "bin" else "dyadic", directed))
    if wk.startswith("near-equal"):
        # weights within 1e-5 of each other (1 + k 2^-20): costs of competing swaps are close but not equal; all sums stay exact
        W = np.where(W != 0, 1.0 + (np.round(W * 8) % 8) * 2.0 ** -20, 0.0)
    if wk.endswith("tiny"):
        W = W * 2.0 ** -40
    case = {"fn": name, "kind": "rewire", "W": W, "itr": draw(st.sampled_from([2, 1, 5])), "seed": seed, "family": fam,
            "order": draw(st.sampled_from(gen.ORDERS)), "weights": wk}
    if name in rewire.LATMIO:
        if draw(st.booleans()):
            vals = draw(st.lists(st.integers(0, 6), min_size=n * (n - 1) // 2, max_size=n * (n - 1) // 2))
            D = np.zeros((n, n))
            for (i, j), v in zip(gen.pairs(n, False), vals):
                D[i, j] = D[j, i] = v
            if draw(st.integers(0, 2)) == 0:
                D = 1.0 + D / 8.0          # distances that are not whole numbers (between 1 and 1.75)
                case["D_fractional"] = True
            if directed and draw(st.booleans()):
                # a distance-to-diagonal matrix of a directed layout need not be symmetric
                up = draw(st.lists(st.integers(0, 6), min_size=n * (n - 1) // 2, max_size=n * (n - 1) // 2))
                for (i, j), v in zip(gen.pairs(n, False), up):
                    D[j, i] = v
            case["D"] = D
            case["D_dtype"] = "float64" if case.get("D_fractional") else draw(st.sampled_from(["uint8", "float64", "int64", "uint16", "float64"]))      # distances are often stored as small integers
            if wk == "bin":
                case["W_dtype"] = draw(st.sampled_from(["int64", "float64", "bool", "uint8"]))       # a 0/1 network in an integer / logical array
        else:
            case["D"] = None
    return case


def units(tier):
    nmax = 10 if tier == "quick" else 18
    us = []
    for name in rewire.CONNECTED:
        us.append(Unit(name, check, strategy=(lambda nm=name: cases([nm], nmax)), examples=(500, 6000), shards=(3, 12)))
    for name in ("latmio_und", "latmio_dir", "randomize_graph_partial_und"):
        us.append(Unit(name, check, strategy=(lambda nm=name: cases([nm], nmax)), examples=(300, 4000), shards=(2, 8)))
    allnames = list(rewire.CONNECTED) + ["latmio_und", "latmio_dir", "randomize_graph_partial_und"]
    us.append(Unit("all-routines-n<=32", check, strategy=lambda: cases(allnames, 32), examples=(96, 1600), shards=(16, 16)))
    return us
