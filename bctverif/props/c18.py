"""C18 -- random-walk and spectral measures satisfy their defining equations."""
import numpy as np
from hypothesis import strategies as st
from scipy import linalg as sla

import bct

from .. import gen
from ..core import Failure, Unit
from ..oracles import graph as og

PROPERTY = "C18"
RULE = ("Cases = (measure, matrix, parameters). Random-walk measures (mean_first_passage_time, diffusion_efficiency, pagerank_centrality with "
        "d in {.5,.85,.99} and optional prior): connected undirected weighted graphs and strongly connected directed ones (directed ring + "
        "chords), including periodic chains (even cycles, complete bipartite, trees, stars). Spectral measures (subgraph_centrality, "
        "eigenvector_centrality_und, findwalks): all undirected graphs with emphasis on degenerate spectra -- cycles, K_ab, K_n, stars, "
        "hypercube Q3, Petersen graph, disjoint equal copies -- plus random, labels shuffled; n<=12 (findwalks n<=8). Oracle = residual of the "
        "defining equation (MFPT recursion, PageRank fixed point) and scipy.linalg.expm / numpy matrix_power / eigvalsh references. "
        "Non-trivial = (spectral) the graph has a repeated eigenvalue (gap < 1e-9); (random-walk) the chain is periodic (bipartite) or the "
        "graph is directed; distinct by hash of the case.")
BOUNDS = {"n": "3..12", "findwalks_n": "2..8 exact, 16..22 dense (counts beyond 2^63, rtol 1e-9 against exact big-integer powers)", "residual_tol": 1e-8}
MIN_NONTRIVIAL = {"quick": 300, "thorough": 3000}


def _petersen():
    A = np.zeros((10, 10), dtype=bool)
    for i in range(5):
        A[i, (i + 1) % 5] = A[(i + 1) % 5, i] = True
        A[i, i + 5] = A[i + 5, i] = True
        A[5 + i, 5 + (i + 2) % 5] = A[5 + (i + 2) % 5, 5 + i] = True
    return A


def _hypercube3():
    A = np.zeros((8, 8), dtype=bool)
    for i in range(8):
        for b in range(3):
            A[i, i ^ (1 << b)] = True
    return A


def _is_bipartite(A):
    n = len(A)
    col = [-1] * n
    for s in range(n):
        if col[s] >= 0:
            continue
        col[s] = 0
        st_ = [s]
        while st_:
            u = st_.pop()
            for v in range(n):
                if (A[u, v] or A[v, u]) and u != v:
                    if col[v] < 0:
                        col[v] = 1 - col[u]
                        st_.append(v)
                    elif col[v] == col[u]:
                        return False
    return True


def check(case, ctx):
    m = case["measure"]
    W = gen.layout(np.array(case["W"], dtype=float), case.get("order"))
    n = len(W)
    fails = []
    ctx.label("measure:" + m)
    ctx.label("family:" + case.get("family", "?"))
    directed = not np.array_equal(W, W.T)

    def run(f, *a, **k):
        o = ctx.call(f, *a, **k)
        if o.ok:
            return o.value
        if o.status != "timeout":
            fails.append(Failure("crash:%s:%s" % (f.__name__, o.exc_name()), repr(o.exc)[:200], case))
        return None

    if m in ("mfpt", "diffusion"):
        if directed or _is_bipartite(W != 0):
            ctx.mark_nontrivial(case)
        P = W / W.sum(axis=1, keepdims=True)
        M = run(bct.mean_first_passage_time, gen.layout(W.copy(), case.get("order")))
        if M is None:
            return fails
        M = np.asarray(M, dtype=float)
        if M.shape != (n, n) or not np.all(np.isfinite(M)):
            fails.append(Failure("mean_first_passage_time:not-finite-nxn", "shape %s" % (M.shape,), case))
            return fails
        # M[i,j] = 1 + sum_{k != j} P[i,k] M[k,j]   for i != j
        worst = 0.0
        where = None
        for j in range(n):
            Mj = M[:, j].copy()
            Mj[j] = 0.0                     # exclude k = j
            rhs = 1.0 + P @ Mj
            for i in range(n):
                if i == j:
                    continue
                r = abs(M[i, j] - rhs[i]) / max(1.0, abs(rhs[i]))
                if r > worst:
                    worst, where = r, (i, j)
        if worst > 1e-8:
            fails.append(Failure("mean_first_passage_time:defining-equation-residual",
                                 "pair %s: relative residual %.3g of M[i,j] = 1 + sum_{k!=j} P[i,k] M[k,j]" % (where, worst), case))
        if m == "diffusion":
            r = run(bct.diffusion_efficiency, gen.layout(W.copy(), case.get("order")))
            if r is not None:
                ge, E = r
                E = np.asarray(E, dtype=float)
                off = ~np.eye(n, dtype=bool)
                if E.shape != (n, n) or not np.allclose(E[off], 1.0 / M[off], rtol=1e-9, atol=0):
                    fails.append(Failure("diffusion_efficiency:not-elementwise-inverse-of-mfpt", "", case))
                elif not np.isfinite(float(ge)) or abs(float(ge) - float(np.mean(1.0 / M[off]))) > 1e-9 * max(1.0, abs(float(ge))):
                    fails.append(Failure("diffusion_efficiency:global-value-not-mean", "%r vs %r" % (ge, np.mean(1.0 / M[off])), case))
        return fails

    if m == "pagerank":
        if directed or _is_bipartite(W != 0):
            ctx.mark_nontrivial(case)
        d = case["d"]
        f = case.get("prior")
        f = None if f is None else np.array(f, dtype=float)
        r = run(bct.pagerank_centrality, gen.layout(W.copy(), case.get("order")), d, falff=(None if f is None else f.copy()))
        if r is None:
            return fails
        r = np.asarray(r, dtype=float).ravel()
        if r.shape != (n,) or not np.all(np.isfinite(r)):
            fails.append(Failure("pagerank_centrality:bad-vector", "%s" % r, case))
            return fails
        fn = np.ones(n) / n if f is None else f / f.sum()
        if np.any(r <= 0):
            fails.append(Failure("pagerank_centrality:not-positive", "%s" % r, case))
        if abs(r.sum() - 1) > 1e-12:
            fails.append(Failure("pagerank_centrality:does-not-sum-to-one", "%r" % r.sum(), case))
        deg = W.sum(axis=0)
        deg = np.where(deg == 0, 1.0, deg)
        rhs = d * (W @ (r / deg)) + (1 - d) * fn
        res = np.max(np.abs(r - rhs)) / max(np.max(np.abs(r)), 1e-300)
        if res > 1e-9:
            fails.append(Failure("pagerank_centrality:fixed-point-residual", "relative residual %.3g of r = d A D^-1 r + (1-d) f" % res, case))
        return fails

    # spectral measures on undirected graphs
    ev = np.linalg.eigvalsh(W)
    gaps = np.diff(np.sort(ev))
    repeated = bool(np.any(gaps < 1e-9 * min(1.0, max(float(np.max(np.abs(ev))), 1e-300))))
    if repeated:
        ctx.mark_nontrivial(case)
        ctx.label("repeated-eigenvalue")
    if m == "subgraph":
        X = gen.layout(W.copy(), case.get("order"))
        r = run(bct.subgraph_centrality, X)
        r_again = run(bct.subgraph_centrality, X)          # history: second call on the very same array object
        if r is not None and r_again is not None and not np.allclose(np.asarray(r_again, dtype=float), np.asarray(r, dtype=float), rtol=1e-9, atol=1e-12):
            fails.append(Failure("subgraph_centrality:second-call-on-same-array-differs", "first %s, second %s" % (np.asarray(r)[:3], np.asarray(r_again)[:3]), case))
        if r is not None:
            r = np.asarray(r, dtype=float).ravel()
            want = np.diag(sla.expm(W))
            # conditioning: node i's value is sum_k v_ik^2 exp(lambda_k); an eigenvector component known to eps (relative to the unit
            # norm) contributes an absolute error of about eps |v_ik| exp(lambda_k) -- far above 1e-8 of the value for nodes that
            # carry almost no weight of the leading eigenvectors of a wide spectrum. 64 times that first-order bound is allowed (8 times was exceeded by 7% on a K40 core with a 6-node tail in the thorough tier).
            lam_, V_ = np.linalg.eigh(W)
            slack = 64 * np.finfo(float).eps * (np.abs(V_) * np.exp(lam_)[None, :]).sum(axis=1)
            if r.shape != (n,) or not np.all(np.abs(r - want) <= 1e-10 + 1e-8 * np.abs(want) + slack):
                v = int(np.argmax(np.abs(r - want) - (1e-10 + 1e-8 * np.abs(want) + slack))) if r.shape == (n,) else -1
                fails.append(Failure("subgraph_centrality:not-diagonal-of-expm",
                                     "node %d: returned %r, expm(A)[v,v] = %r" % (v, r[v] if v >= 0 else r, want[v] if v >= 0 else want), case,
                                     {"repeated": repeated}))
    elif m == "eigenvector":
        X = gen.layout(W.copy(), case.get("order"))
        r = run(bct.eigenvector_centrality_und, X)
        r_again = run(bct.eigenvector_centrality_und, X)
        if r is not None and r_again is not None and not repeated and not np.allclose(np.asarray(r_again, dtype=float), np.asarray(r, dtype=float), rtol=1e-9, atol=1e-12):
            fails.append(Failure("eigenvector_centrality_und:second-call-on-same-array-differs", "", case))
        if r is not None:
            v = np.asarray(r, dtype=float).ravel()
            lam = float(ev.max())
            if v.shape != (n,):
                fails.append(Failure("eigenvector_centrality_und:shape", "%s" % (v.shape,), case))
            elif not np.all(np.isfinite(v)):
                fails.append(Failure("eigenvector_centrality_und:not-finite", "%s" % v, case))
            else:
                if np.any(v < -1e-12):
                    fails.append(Failure("eigenvector_centrality_und:negative-entry", "%s" % v, case))
                if abs(np.linalg.norm(v) - 1) > 1e-8:
                    fails.append(Failure("eigenvector_centrality_und:not-unit-norm", "%r" % np.linalg.norm(v), case))
                res = np.linalg.norm(W @ v - lam * v)
                if res > 1e-8 * (abs(lam) if lam > 0 else 1.0):
                    fails.append(Failure("eigenvector_centrality_und:not-an-eigenvector-of-lambda-max",
                                         "||Av - lambda_max v|| = %.3g (lambda_max=%r)" % (res, lam), case, {"repeated": repeated}))
    elif m == "findwalks":
        r = run(bct.findwalks, gen.layout(W.copy(), case.get("order")))
        if r is not None:
            try:
                Wq, twalk, wlq = r
                Wq = np.asarray(Wq, dtype=float)
                wlq = np.asarray(wlq, dtype=float)
            except Exception:
                fails.append(Failure("findwalks:bad-return", repr(r)[:100], case))
                return fails
            A = (W != 0).astype(float)
            Aint = (W != 0).astype(int).astype(object)       # exact big-integer powers (no overflow, no rounding)
            P = Aint.copy()
            for q in range(1, n):
                if q > 1:
                    P = P.dot(Aint)
                want = P.astype(float)
                exact_ok = float(want.max()) < 2.0 ** 53
                got = Wq[:, :, q] if (Wq.ndim == 3 and Wq.shape[2] > q) else None
                if got is None or not (np.array_equal(got, want) if exact_ok else np.allclose(got, want, rtol=1e-9, atol=0)):
                    fails.append(Failure("findwalks:Wq-not-matrix-power",
                                         "Wq[:,:,%d] is not A^%d (the number of walks of length %d)" % (q, q, q), case))
                    break
            if Wq.ndim == 3:
                if not np.allclose(wlq, Wq.sum(axis=(0, 1)), rtol=1e-12, atol=0):
                    fails.append(Failure("findwalks:wlq-not-sum-of-Wq", "", case))
                if not np.isclose(float(twalk), float(Wq.sum()), rtol=1e-12, atol=0):
                    fails.append(Failure("findwalks:twalk-not-total", "%r vs %r" % (twalk, Wq.sum()), case))
    return fails


# ----------------------------------------------------------------------
@st.composite
def spectral_graph(draw, nmax):
    fam = draw(st.sampled_from(["ring", "bipartite", "complete", "star", "q3", "petersen", "copies", "path", "er", "er", "tree"]))
    if fam == "ring":
        A = gen.ring_adj(draw(st.integers(3, nmax)))
    elif fam == "bipartite":
        a = draw(st.integers(1, nmax // 2))
        b = draw(st.integers(1, nmax - a))
        A = gen.bipartite_adj(a, b)
    elif fam == "complete":
        A = gen.complete_adj(draw(st.integers(2, min(nmax, 8))))
    elif fam == "star":
        A = gen.star_adj(draw(st.integers(3, nmax)))
    elif fam == "q3":
        A = _hypercube3()
    elif fam == "petersen":
        A = _petersen()
    elif fam == "copies":
        m = draw(st.integers(2, max(2, nmax // 2)))
        B = gen.ring_adj(m) if (m >= 3 and draw(st.booleans())) else draw(gen.er_adj(m, False, "medium"))
        A = gen.block_diag(B, B)
    elif fam == "path":
        A = gen.path_adj(draw(st.integers(2, nmax)))
    elif fam == "tree":
        A = draw(gen.tree_adj(draw(st.integers(2, nmax))))
    else:
        A = draw(gen.er_adj(draw(st.integers(2, nmax)), False))
    if len(A) > nmax:
        A = A[:nmax, :nmax]
    n = len(A)
    if draw(st.booleans()):
        A = gen.apply_perm(A, draw(gen.perm(n)))
    return A, fam


@st.composite
def walk_graph(draw, nmax):
    """connected undirected or strongly connected directed, weighted"""
    directed = draw(st.integers(0, 2)) == 0
    if directed:
        n = draw(st.integers(3, nmax))
        A = draw(gen.dring_chords_adj(n, max_chords=5))
        fam = "dring+chords"
    else:
        fam = draw(st.sampled_from(["ring", "bipartite", "tree", "star", "tree+chords", "er+path", "complete"]))
        if fam == "ring":
            A = gen.ring_adj(draw(st.integers(3, nmax)))
        elif fam == "bipartite":
            a = draw(st.integers(1, nmax // 2))
            A = gen.bipartite_adj(a, draw(st.integers(1, nmax - a)))
        elif fam == "tree":
            A = draw(gen.tree_adj(draw(st.integers(2, nmax))))
        elif fam == "star":
            A = gen.star_adj(draw(st.integers(3, nmax)))
        elif fam == "tree+chords":
            A = draw(gen.tree_chords_adj(draw(st.integers(3, nmax))))
        elif fam == "complete":
            A = gen.complete_adj(draw(st.integers(2, min(8, nmax))))
        else:
            n = draw(st.integers(3, nmax))
            A = draw(gen.er_adj(n, False)) | gen.path_adj(n)
    n = len(A)
    if not directed and draw(st.integers(0, 5)) == 0:
        # two dense groups joined by one very weak connection: the second eigenvalue of the walk is within 1e-5 of 1
        a, b = draw(st.integers(3, 5)), draw(st.integers(3, 5))
        W = gen.block_diag(gen.complete_adj(a), gen.complete_adj(b)).astype(float)
        W[a - 1, a] = W[a, a - 1] = draw(st.sampled_from([2.0 ** -20, 2.0 ** -18]))
        n = a + b
        if draw(st.booleans()):
            W = gen.apply_perm(W, draw(gen.perm(n)))
        return W, "nearly-disconnected"
    if draw(st.booleans()):
        A = gen.apply_perm(A, draw(gen.perm(n)))
    W = draw(gen.weights_for(A, draw(st.sampled_from(["bin", "dyadic", "float"])), directed))
    if draw(st.integers(0, 2)) == 0:
        # self-connections (a lazy walk): the defining equations hold for the network's own transition matrix
        d = draw(st.lists(st.integers(0, 4), min_size=n, max_size=n))
        for i, v in enumerate(d):
            W[i, i] = v / 4.0
        fam = fam + "+selfloops"
    # the same network in another unit: the transition matrix (and so every random-walk measure) is unchanged
    W = W * draw(st.sampled_from([1.0, 1.0] + gen.POW2_SCALES))
    return W, fam


@st.composite
def cases(draw, measures):
    m = draw(st.sampled_from(measures))
    if m in ("mfpt", "diffusion", "pagerank"):
        W, fam = draw(walk_graph(12))
        c = {"measure": m, "W": W, "family": fam, "order": draw(st.sampled_from(gen.ORDERS))}
        if m == "pagerank":
            c["d"] = draw(st.sampled_from([0.5, 0.85, 0.99]))
            if draw(st.booleans()):
                c["prior"] = np.array(draw(st.lists(st.integers(1, 5), min_size=len(W), max_size=len(W))), dtype=float)
            else:
                c["prior"] = None
        return c
    if m == "pagerank-large":
        # beyond 1000 nodes (the docstring's own size remark), slowly mixing: a ring lattice with a hub, damping close to 1
        n = draw(st.integers(1001, 1100))
        A = gen.ring_adj(n).astype(float)
        if draw(st.booleans()):
            idx = np.arange(n)
            A[idx, (idx + 2) % n] = 1
            A[(idx + 2) % n, idx] = 1
        hub = draw(st.integers(0, n - 1))
        for v in draw(st.lists(st.integers(0, n - 1), min_size=3, max_size=12)):
            if v != hub:
                A[hub, v] = A[v, hub] = 1
        if draw(st.booleans()):        # some one-way streets
            for v in draw(st.lists(st.integers(0, n - 1), min_size=1, max_size=20)):
                A[v, (v + 1) % n] = 0
        return {"measure": "pagerank", "W": A, "family": "ring-lattice+hub-n>1000", "d": draw(st.sampled_from([0.99, 0.97, 0.85])), "prior": None,
                "order": draw(st.sampled_from(gen.ORDERS))}
    if m == "subgraph" and draw(st.integers(0, 2)) == 0:
        # a wide spectrum (a heavy or large dense core) next to nodes that carry no weight of the leading eigenvector
        # (another component, an isolated node, the far end of a tail)
        if draw(st.integers(0, 3)) == 0:
            # heavy weights on a two-colourable network: eigenvalues +-2w with 2w < 709 < 4w, the values themselves stay finite (~1e170)
            k = draw(st.integers(4, 10))
            W = (gen.ring_adj(2 * (k // 2) + 2) if draw(st.booleans()) else gen.path_adj(k)).astype(float) * draw(st.sampled_from([200.0, 180.0, 300.0]))
            return {"measure": m, "W": W, "family": "heavy-bipartite", "order": draw(st.sampled_from(gen.ORDERS))}
        core = draw(st.integers(5, 10))
        w = draw(st.sampled_from([9.0, 4.0, 1.0, 6.5]))
        if w == 1.0:
            core = draw(st.integers(38, 44))
        other = draw(st.sampled_from(["edge", "isolated", "tail", "triangle"]))
        B = {"edge": gen.complete_adj(2), "isolated": np.zeros((1, 1), dtype=bool), "tail": gen.path_adj(draw(st.integers(6, 9))),
             "triangle": gen.complete_adj(3)}[other]
        W = gen.block_diag(gen.complete_adj(core), B).astype(float)
        W[:core, :core] *= w
        W[core:, core:] *= draw(st.sampled_from([0.5, 1.0]))
        if other == "tail":
            W[core - 1, core] = W[core, core - 1] = 1.0
        n = len(W)
        if draw(st.booleans()):
            W = gen.apply_perm(W, draw(gen.perm(n)))
        return {"measure": m, "W": W, "family": "wide-spectrum+" + other, "order": draw(st.sampled_from(gen.ORDERS))}
    if m == "findwalks" and draw(st.integers(0, 3)) == 0:
        # large dense graphs: walk counts beyond 2^53 / 2^63 (float rounding is fine, integer wrap-around is not)
        n = draw(st.integers(16, 22))
        A = draw(gen.er_adj(n, False, "dense")) | gen.ring_adj(n)
        return {"measure": m, "W": A.astype(float), "family": "dense-large"}
    if m == "findwalks" and draw(st.integers(0, 2)) == 0:
        # directed networks: the entry (i, j) counts walks FROM i TO j
        n = draw(st.integers(2, 8))
        sub = draw(st.sampled_from(["er", "dring", "drain"]))
        if sub == "drain":
            # every walk ends in a self-connected sink: the powers of the adjacency matrix stop changing without becoming zero
            A = np.zeros((n, n), dtype=bool)
            sinks = draw(st.integers(1, max(1, n // 3)))
            for v in range(sinks):
                A[v, v] = True
            for v in range(sinks, n):
                A[v, draw(st.integers(0, v - 1))] = True
            A = gen.apply_perm(A, draw(gen.perm(n)))
        else:
            A = draw(gen.er_adj(n, True)) if sub == "er" else draw(gen.dring_chords_adj(max(n, 3), max_chords=3))
            if draw(st.booleans()):
                A = A.copy()
                for v in draw(st.lists(st.integers(0, len(A) - 1), max_size=3)):
                    A[v, v] = True
        return {"measure": m, "W": A.astype(float), "family": "directed-" + sub, "order": draw(st.sampled_from(gen.ORDERS))}
    A, fam = draw(spectral_graph(8 if m == "findwalks" else 12))
    if m == "eigenvector" and draw(st.booleans()):
        W = draw(gen.weights_for(A, "dyadic", False)) * draw(st.sampled_from([1.0, 1.0] + gen.POW2_SCALES))
    else:
        W = A.astype(float)
    return {"measure": m, "W": W, "family": fam, "order": draw(st.sampled_from(gen.ORDERS))}


def units(tier):
    return [
        Unit("random-walk", check, strategy=lambda: cases(["mfpt", "diffusion", "pagerank", "pagerank"]), examples=(4000, 100000), shards=(8, 16)),
        Unit("spectral", check, strategy=lambda: cases(["subgraph", "eigenvector", "findwalks"]), examples=(5000, 125000), shards=(8, 16)),
        Unit("pagerank-n>1000", check, strategy=lambda: cases(["pagerank-large"]), examples=(24, 160), shards=(8, 16)),
    ]
