"""C12 -- every path the library returns is a real path with the reported length."""
import math
import operator
from fractions import Fraction

import numpy as np
from hypothesis import strategies as st

import bct

from .. import gen
from ..core import Failure, Unit
from ..oracles import graph as og
from . import c03

PROPERTY = "C12"
RULE = ("Cases: (a) floyd: (kind, matrix) as in C03 -- 'bin', 'len' (lengths {1,2,3} / k/8 / decimal tenths), 'inv', 'log' (small rationals incl. "
        "w=1, or generic floats), directed and undirected, disconnected included, exhaustive small binary graphs -- and for EVERY ordered pair "
        "(s,t), s != t, retrieve_shortest_path(s, t, hops, Pmat) is validated edge by edge: starts at s, ends at t, every step is an existing "
        "connection, len-1 == hops[s,t], summed length == SPL[s,t] (exact or rtol 1e-9), empty <=> t unreachable by the exact oracle. "
        "(b) navigation: length matrix L (directed/undirected), nodal distance matrix D (Euclidean from random planar points, or random "
        "symmetric integers with many ties), max_hops in {1,2,n,2n} or None where an independent greedy simulation terminates; every "
        "paths[(i,j)] is walked: consecutive nodes connected, hop count / sum L / sum D equal PL_bin / PL_wei / PL_dis when finite, all three "
        "infinite together, sr == fraction of finite off-diagonal pairs. Non-trivial = (a) >= 1 unreachable pair and >= 1 returned path with "
        ">= 3 nodes; (b) >= 1 failed and >= 1 successful multi-hop navigation. Distinct by hash of the case.")
BOUNDS = {"exhaustive_quick": "digraphs n<=4, graphs n<=5", "random_n": "2..10 (floyd), 3..9 (navigation)", "rtol": 1e-9}
MIN_NONTRIVIAL = {"quick": 300, "thorough": 3000}
INF = float("inf")


def _exact_model(case):
    """exact lengths (or weights for 'log') + semiring; returns (Lf, combine, better, unit, tofloat)"""
    kind = case["kind"]
    W = np.array(case["W"], dtype=float)
    n = len(W)
    if kind == "log":
        if "Wfrac" in case:
            Lf = [[(Fraction(*case["Wfrac"][i][j]) if case["Wfrac"][i][j] else None) for j in range(n)] for i in range(n)]
        else:
            Lf = [[(Fraction(float(W[i, j])) if (i != j and W[i, j] != 0) else None) for j in range(n)] for i in range(n)]
        return Lf, operator.mul, operator.gt, Fraction(1), (lambda p: -math.log(p) if p != 1 else 0.0)
    if kind == "inv":
        Lf = [[(1 / Fraction(float(W[i, j])) if (i != j and W[i, j] != 0) else None) for j in range(n)] for i in range(n)]
    else:
        Lf = [[(Fraction(float(W[i, j])) if (i != j and W[i, j] != 0) else None) for j in range(n)] for i in range(n)]
    return Lf, operator.add, operator.lt, 0, float


def _float_lengths(case):
    kind = case["kind"]
    W = np.array(case["W"], dtype=float)
    n = len(W)
    off = ~np.eye(n, dtype=bool)
    with np.errstate(divide="ignore"):
        if kind == "log":
            L = np.where((W != 0) & off, -np.log(np.where(W != 0, W, 1.0)), INF)
        elif kind == "inv":
            L = np.where((W != 0) & off, 1.0 / np.where(W != 0, W, 1.0), INF)
        else:
            L = np.where((W != 0) & off, W, INF)
    return L


def kf_neartie(failure):
    """KF-C12-1: distance_wei_floyd keeps `hops` and `Pmat` in step only while float comparisons agree; when two routes are within
    round-off of each other (here: at least two distinct s->t routes whose float lengths agree to 1e-9 relative) the strict `>` test can
    take one route for (s,t) and another for a sub-pair, and retrieve_shortest_path returns a sequence cut at the wrong length.
    Signature checked: for the failing pair there are >= 2 distinct routes within 1e-9 of the minimum."""
    info = failure.info
    return bool(info.get("near_tie_routes", 0) >= 2) and info.get("transform") in ("log", "inv", "none-float")


KF_PREDICATES = {"kf_neartie": kf_neartie}


def _count_near_routes(L, s, t, n):
    """number (capped) of distinct s->t walks whose float length is within 1e-9 of the minimum; walks of up to 2n edges, because
    zero-length connections ('log' of w = 1) allow minimum-length walks that repeat nodes"""
    zero = bool(np.any(L == 0))
    hcap = 2 * n if zero else n - 1
    best = og.hop_min_len(L, s, hmax=n)
    dmin = float(np.min(best[:, t]))
    if not np.isfinite(dmin):
        return 0
    lim = dmin * (1 + 1e-9) + 1e-12
    # DFS with pruning by remaining lower bound (distance-to-t of the reverse graph)
    rev = og.hop_min_len(L.T, t, hmax=n)
    to_t = np.min(rev, axis=0)
    count = 0
    stack = [(s, 0.0, 0)]
    while stack and count < 3:
        u, d, h = stack.pop()
        if u == t and h > 0:
            count += 1
            continue
        if h >= hcap:
            continue
        for v in range(n):
            l = L[u, v]
            if np.isfinite(l) and d + l + to_t[v] <= lim:
                stack.append((v, d + l, h + 1))
    return count


def check_floyd(case, ctx):
    kind = case["kind"]
    W = gen.layout(np.array(case["W"], dtype=float), case.get("order"))
    n = len(W)
    fails = []
    ctx.label("floyd:" + kind)
    ctx.label("layout:" + str(case.get("order", "C")))
    transform = {"log": "log", "inv": "inv"}.get(kind)
    Lf, combine, better, unit, tofloat = _exact_model(case)
    De = og.exact_sp(Lf, combine=combine, better=better, unit=unit)
    o = ctx.call(bct.distance_wei_floyd, gen.layout(W.copy(), case.get("order")), transform=transform)
    if o.status == "timeout":
        return fails
    if not o.ok:
        return [Failure("crash:distance_wei_floyd(%s):%s" % (transform, o.exc_name()), repr(o.exc)[:200], case)]
    SPL, hops, Pmat = o.value
    SPL = np.asarray(SPL, dtype=float)
    hops = np.asarray(hops)
    Pmat = np.asarray(Pmat)
    Lfl = _float_lengths(case)
    exact_class = kind in ("bin", "len", "inv") and not case.get("decimal")
    tkey = transform or ("none-float" if case.get("decimal") else "none")
    long_path = False
    unreachable = False
    _held = []
    for s in range(n):
        for t in range(n):
            if s == t:
                # a node to itself: zero connections, zero length, whatever sits on the diagonal of the input
                op = ctx.call(bct.retrieve_shortest_path, s, s, hops, Pmat)
                if op.ok:
                    pth = [int(v) for v in np.asarray(op.value).ravel()] if len(op.value) else []
                    if pth not in ([], [s]) or hops[s, s] != 0 or SPL[s, s] != 0:
                        fails.append(Failure("retrieve_shortest_path:node-to-itself", "(%d,%d): path %s, hops %r, length %r" % (s, s, pth, hops[s, s], SPL[s, s]), case))
                        return fails
                continue
            op = ctx.call(bct.retrieve_shortest_path, s, t, hops, Pmat)
            if not op.ok:
                if op.status != "timeout":
                    fails.append(Failure("crash:retrieve_shortest_path:%s" % op.exc_name(), "(%d,%d): %r" % (s, t, op.exc), case))
                    return fails
                continue
            # what the caller still holds: the first and the previous path returned must still read as they did when they were returned
            for (hs, ht, hv, hc) in ([_held[0], _held[-1]] if _held else []):
                if not np.array_equal(np.asarray(hv), hc):
                    fails.append(Failure("retrieve_shortest_path:path-held-by-caller-changed-by-a-later-call",
                                         "path (%d,%d) read %s when returned and %s after the query (%d,%d)" % (hs, ht, hc.tolist(), np.asarray(hv).tolist(), s, t), case))
                    return fails
            if isinstance(op.value, np.ndarray):
                _held.append((s, t, op.value, np.array(op.value, copy=True)))
            path = [int(v) for v in np.asarray(op.value).ravel()] if len(op.value) else []
            reach = De[s][t] is not None
            if not reach:
                unreachable = True
                if path:
                    fails.append(Failure("retrieve_shortest_path:path-returned-for-unreachable-target", "(%d,%d): %s" % (s, t, path), case))
                    return fails
                continue
            info = {"transform": tkey, "pair": [s, t]}
            if not path:
                fails.append(Failure("retrieve_shortest_path:empty-path-for-reachable-target", "(%d,%d) is reachable (distance %r)" % (s, t, tofloat(De[s][t])), case, info))
                return fails
            bad = None
            if path[0] != s:
                bad = "does not start at the source"
            elif path[-1] != t:
                bad = "does not end at the target"
            elif any(not np.isfinite(Lfl[a, b]) for a, b in zip(path, path[1:])):
                bad = "uses a non-existent connection"
            elif len(path) - 1 != hops[s, t]:
                bad = "has %d hops, reported %r" % (len(path) - 1, hops[s, t])
            else:
                tot = sum(Lfl[a, b] for a, b in zip(path, path[1:]))
                if exact_class:
                    okl = tot == SPL[s, t]
                else:
                    okl = abs(tot - SPL[s, t]) <= 1e-9 * max(1.0, abs(SPL[s, t]))
                if not okl:
                    bad = "has total length %r, reported %r" % (tot, SPL[s, t])
            if bad:
                info["near_tie_routes"] = _count_near_routes(Lfl, s, t, n)
                fails.append(Failure("retrieve_shortest_path:invalid-path", "(%d,%d): path %s %s" % (s, t, path, bad), case, info))
                return fails
            if len(path) >= 3:
                long_path = True
    if unreachable and long_path:
        ctx.mark_nontrivial({"kind": kind, "W": W})
    return fails


# ----------------------------------------------------------------------
def _greedy_terminates(L, D, n):
    """independent simulation of greedy navigation with cycle detection (domain guard for max_hops=None)"""
    for i in range(n):
        for j in range(n):
            if i == j:
                continue
            cur, last = i, i
            seen = set()
            while cur != j:
                nb = np.flatnonzero(L[cur, :] != 0)
                if len(nb) == 0:
                    break
                nxt = int(nb[int(np.argmin(D[j, nb]))])
                if nxt == last:
                    break
                if (cur, nxt) in seen:
                    return False
                seen.add((cur, nxt))
                last, cur = cur, nxt
    return True


def check_nav(case, ctx):
    L = gen.layout(np.array(case["L"], dtype=float), case.get("order"))
    D = np.array(case["D"], dtype=float)
    n = len(L)
    mh = case["max_hops"]
    fails = []
    ctx.label("navigation")
    if mh is None and not _greedy_terminates(L, D, n):
        ctx.notes["navigation:greedy-cycle-without-max_hops(skipped)"] += 1
        return fails
    o = ctx.call(bct.navigation_wu, L.copy(), D.copy(), max_hops=mh)
    if o.status == "timeout":
        return fails
    if not o.ok:
        return [Failure("crash:navigation_wu:%s" % o.exc_name(), repr(o.exc)[:200], case)]
    try:
        sr, PLb, PLw, PLd, paths = o.value
        PLb, PLw, PLd = (np.asarray(a, dtype=float) for a in (PLb, PLw, PLd))
    except Exception:
        return [Failure("navigation_wu:bad-return", repr(o.value)[:200], case)]
    ok_multi = False
    failed = False
    nfin = 0
    for i in range(n):
        for j in range(n):
            if i == j:
                continue
            p = paths.get((i, j))
            if p is None:
                fails.append(Failure("navigation_wu:missing-path-entry", "(%d,%d)" % (i, j), case))
                return fails
            p = [int(v) for v in p]
            fin = [np.isfinite(PLb[i, j]), np.isfinite(PLw[i, j]), np.isfinite(PLd[i, j])]
            if len(set(fin)) != 1:
                fails.append(Failure("navigation_wu:failure-not-infinite-in-all-three", "(%d,%d): %r %r %r" % (i, j, PLb[i, j], PLw[i, j], PLd[i, j]), case))
                return fails
            if not p or p[0] != i or any(L[a, b] == 0 for a, b in zip(p, p[1:])):
                fails.append(Failure("navigation_wu:path-not-a-walk-along-connections", "(%d,%d): %s" % (i, j, p), case))
                return fails
            if fin[0]:
                nfin += 1
                hop = len(p) - 1
                sl = sum(L[a, b] for a, b in zip(p, p[1:]))
                sd = sum(D[a, b] for a, b in zip(p, p[1:]))
                if p[-1] != j:
                    fails.append(Failure("navigation_wu:successful-path-does-not-end-at-target", "(%d,%d): %s" % (i, j, p), case))
                    return fails
                if hop != PLb[i, j] or abs(sl - PLw[i, j]) > 1e-9 * max(1, abs(sl)) or abs(sd - PLd[i, j]) > 1e-9 * max(1, abs(sd)):
                    fails.append(Failure("navigation_wu:reported-lengths-differ-from-path",
                                         "(%d,%d): path %s has hops/len/dist %r/%r/%r, reported %r/%r/%r" % (i, j, p, hop, sl, sd, PLb[i, j], PLw[i, j], PLd[i, j]), case))
                    return fails
                if mh is not None and hop > mh + 1:
                    # the hop limit (the unchanged routine gives up once more than max_hops connections have been travelled)
                    fails.append(Failure("navigation_wu:hop-limit-ignored", "(%d,%d): %d connections travelled and reported successful under max_hops=%r" % (i, j, hop, mh), case))
                    return fails
                if hop >= 2:
                    ok_multi = True
            else:
                failed = True
    want = nfin / (n * n - n)
    if abs(float(sr) - want) > 1e-12:
        fails.append(Failure("navigation_wu:success-ratio-wrong", "sr=%r, %d of %d ordered pairs succeeded" % (sr, nfin, n * n - n), case))
    if ok_multi and failed:
        ctx.mark_nontrivial(case)
    return fails


def check_floyd_long(case, ctx):
    """very elongated networks (chains, rings, combs of 257..300 nodes): shortest paths of more than 255 connections.
    The exact-rational oracle is too slow here; lengths are dyadic, so float sums are exact and scipy's Dijkstra is the reference."""
    from scipy.sparse.csgraph import shortest_path
    W = gen.layout(np.array(case["W"], dtype=float), case.get("order"))
    n = len(W)
    fails = []
    ctx.label("floyd:long-" + case["family"])
    ref = shortest_path(np.where(W != 0, W, 0.0), method="D", directed=True)
    o = ctx.call(bct.distance_wei_floyd, gen.layout(W.copy(), case.get("order")), timeout=60)
    if o.status == "timeout":
        return fails
    if not o.ok:
        return [Failure("crash:distance_wei_floyd(long):%s" % o.exc_name(), repr(o.exc)[:200], case)]
    SPL, hops, Pmat = o.value
    SPL = np.asarray(SPL, dtype=float)
    hops = np.asarray(hops)
    off = ~np.eye(n, dtype=bool)
    if not np.array_equal(SPL[off], ref[off]):
        u, v = np.argwhere((SPL != ref) & off)[0]
        fails.append(Failure("distance_wei_floyd:long-network-distance-wrong", "(%d,%d): %r, Dijkstra gives %r" % (u, v, SPL[u, v], ref[u, v]), case))
        return fails
    maxh = 0
    for s_ in case["sources"]:
        for t in range(n):
            if t == s_:
                continue
            op = ctx.call(bct.retrieve_shortest_path, s_, t, hops, Pmat)
            if not op.ok:
                if op.status != "timeout":
                    fails.append(Failure("crash:retrieve_shortest_path:%s" % op.exc_name(), "(%d,%d) on a %d-node %s: %r" % (s_, t, n, case["family"], op.exc), case))
                    return fails
                continue
            path = [int(v) for v in np.asarray(op.value).ravel()] if len(op.value) else []
            if not np.isfinite(ref[s_, t]):
                if path:
                    fails.append(Failure("retrieve_shortest_path:path-returned-for-unreachable-target", "(%d,%d)" % (s_, t), case))
                    return fails
                continue
            bad = None
            if not path:
                bad = "is empty although the target is reachable (distance %r)" % ref[s_, t]
            elif path[0] != s_ or path[-1] != t:
                bad = "runs from %d to %d" % (path[0], path[-1])
            elif any(W[a, b] == 0 for a, b in zip(path, path[1:])):
                bad = "uses a non-existent connection"
            elif len(path) - 1 != hops[s_, t]:
                bad = "has %d hops, reported %r" % (len(path) - 1, hops[s_, t])
            elif sum(W[a, b] for a, b in zip(path, path[1:])) != SPL[s_, t]:
                bad = "has total length %r, reported %r" % (sum(W[a, b] for a, b in zip(path, path[1:])), SPL[s_, t])
            if bad:
                fails.append(Failure("retrieve_shortest_path:invalid-path", "(%d,%d) on a %d-node %s: path of %d nodes %s" % (s_, t, n, case["family"], len(path), bad), case))
                return fails
            maxh = max(maxh, len(path) - 1)
    if maxh > 255:
        ctx.mark_nontrivial({"W": W, "src": case["sources"]})
        ctx.label("path-longer-than-255-connections")
    return fails


def check(case, ctx):
    if case.get("nav"):
        return check_nav(case, ctx)
    if case.get("long"):
        return check_floyd_long(case, ctx)
    return check_floyd(case, ctx)


# ----------------------------------------------------------------------
TENTHS = [0.1, 0.2, 0.3, 0.4, 0.5, 0.6, 0.7]


@st.composite
def floyd_cases(draw, nmax):
    c = draw(_floyd_cases(nmax))
    if draw(st.integers(0, 2)) == 0:
        # self-connections: they lie on no shortest path, and a node is at distance 0 from itself whatever sits on the diagonal
        W = np.array(c["W"], dtype=float)
        dg = draw(st.lists(st.integers(0, 2), min_size=len(W), max_size=len(W)))
        for i, v in enumerate(dg):
            if v:
                W[i, i] = 1.0 if c["kind"] == "bin" else [0.5, 1.0][v - 1]
        c["W"] = W
    return c


@st.composite
def _floyd_cases(draw, nmax):
    kind = draw(st.sampled_from(["bin", "len", "len", "inv", "log", "log", "dec", "invf"]))
    if kind in ("dec", "invf"):
        directed = draw(st.booleans())
        A = draw(c03._adj(nmax, directed))
        n = len(A)
        pr = [(i, j) for (i, j) in gen.pairs(n, directed) if A[i, j]]
        idx = draw(st.lists(st.integers(0, len(TENTHS) - 1), min_size=len(pr), max_size=len(pr)))
        W = np.zeros((n, n))
        for (i, j), k in zip(pr, idx):
            W[i, j] = TENTHS[k]
            if not directed:
                W[j, i] = TENTHS[k]
        order = draw(st.sampled_from(gen.ORDERS))
        if kind == "dec":
            return {"kind": "len", "W": W, "decimal": True, "order": order}
        return {"kind": "inv", "W": W, "decimal": True, "order": order}
    c = draw(c03.cases(nmax, [kind]))
    return c


@st.composite
def nav_cases(draw):
    directed = draw(st.booleans())
    n = draw(st.integers(3, 9))
    A = draw(gen.er_adj(n, directed, draw(st.sampled_from(["sparse", "medium", "dense"]))))
    L = draw(gen.weights_for(A, draw(st.sampled_from(["tie", "dyadic", "bin"])), directed))
    if draw(st.integers(0, 2)) == 0:
        # self-connections: a walker may "move" to the node it is on, which must then count as a failed navigation in all three outputs
        dg = draw(st.lists(st.integers(0, 2), min_size=n, max_size=n))
        for i, v in enumerate(dg):
            L[i, i] = v / 2.0
    if draw(st.booleans()):
        pts = draw(st.lists(st.tuples(st.integers(0, 6), st.integers(0, 6)), min_size=n, max_size=n))
        P = np.array(pts, dtype=float)
        D = np.sqrt(((P[:, None, :] - P[None, :, :]) ** 2).sum(-1))
    else:
        vals = draw(st.lists(st.integers(1, 4), min_size=n * (n - 1) // 2, max_size=n * (n - 1) // 2))
        D = np.zeros((n, n))
        for (i, j), v in zip(gen.pairs(n, False), vals):
            D[i, j] = D[j, i] = float(v)
    mh = draw(st.sampled_from([None, 0, None, 1, 2, "n", "2n"]))
    mh = n if mh == "n" else 2 * n if mh == "2n" else mh
    return {"nav": True, "L": L, "D": D, "max_hops": mh, "order": draw(st.sampled_from(gen.ORDERS))}


@st.composite
def long_cases(draw):
    n = draw(st.integers(258, 300))
    fam = draw(st.sampled_from(["chain", "ring", "comb", "two-chains"]))
    if fam == "ring":
        A = gen.ring_adj(n)
    elif fam == "two-chains":
        k = draw(st.integers(1, 20))
        A = gen.block_diag(gen.path_adj(n - k), gen.path_adj(k))
    else:
        A = gen.path_adj(n)
        if fam == "comb":       # a tooth on every 7th node
            teeth = list(range(3, n - 20, 7))
            B = np.zeros((n + len(teeth), n + len(teeth)), dtype=bool)
            B[:n, :n] = A
            for q, v in enumerate(teeth):
                B[v, n + q] = B[n + q, v] = True
            A = B
    m = len(A)
    lens = draw(st.lists(st.sampled_from([1.0, 2.0, 0.5]), min_size=8, max_size=8))
    W = np.zeros((m, m))
    for (i, j) in zip(*np.nonzero(np.triu(A))):
        W[i, j] = W[j, i] = lens[(i + j) % 8]
    if draw(st.booleans()):
        # a one-way street in the middle of a chain: the way back does not exist
        W[m // 3 + 1, m // 3] = 0.0 if fam != "ring" else W[m // 3 + 1, m // 3]
    sources = [0, n - 1, draw(st.integers(1, n - 2))]
    if draw(st.booleans()):
        p = draw(gen.perm(m))
        W = gen.apply_perm(W, p)
        inv = np.argsort(np.asarray(p))
        sources = [int(inv[v]) for v in sources]
    return {"long": True, "W": W, "family": fam, "sources": sources, "order": draw(st.sampled_from(gen.ORDERS))}


_SP = {}


def _space(tier):
    if tier not in _SP:
        specs = [(2, True), (3, True), (4, True), (4, False), (5, False)]
        if tier == "thorough":
            specs.append((6, False))
        _SP[tier] = gen.GraphSpace(specs)
    return _SP[tier]


def _exh(tier, lo, hi):
    for n, d, A, k in _space(tier).range(lo, hi):
        yield {"kind": "bin", "W": A.astype(float), "order": gen.ORDERS[k % len(gen.ORDERS)]}


def units(tier):
    return [
        Unit("floyd-exhaustive-binary", check, count=lambda t: _space(t).total, cases=_exh, shards=(16, 32),
             space=_space(tier).describe() + " x every ordered pair (s,t)"),
        Unit("floyd-exhaustive-lengths", check, count=c03._w_total, cases=c03._w_cases, shards=(16, 64),
             space="; ".join(sp.describe() for sp in c03._wspace(tier)) + " used as length matrices x every ordered pair (s,t)"),
        Unit("floyd-random", check, strategy=lambda: floyd_cases(9), examples=(1500, 160000), shards=(8, 16)),
        Unit("navigation", check, strategy=nav_cases, examples=(1000, 96000), shards=(6, 16)),
        Unit("floyd-random-n<=28", check, strategy=lambda: floyd_cases(28), examples=(48, 800), shards=(12, 16)),
        Unit("floyd-long-n<=320", check, strategy=long_cases, examples=(40, 200), shards=(8, 16)),
    ]
