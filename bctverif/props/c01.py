"""C01 -- degree-preserving rewiring keeps every node's degree and the weight multiset."""
import numpy as np
from hypothesis import strategies as st

import bct

from .. import gen, rewire
from ..core import Failure, Unit

PROPERTY = "C01"
RULE = ("Cases = (routine, matrix, parameters, seed) for the ten routines; matrices built by construction with at least two vertex-disjoint "
        "connections: trees+chords, rings+chords, barbells, ER sparse..dense, directed rings+chords, two directed cycles sharing a node; "
        "binary or dyadic weights k/8 with repeats; empty diagonal; node labels shuffled; itr in {0,1,2,5}, maxswap 0..10, alpha in {0,.3,.7,1}, "
        "D None or random symmetric non-negative integer matrix, mask density {0,.2,.5}. Oracle = exact invariants of output vs input "
        "(per-node in/out degree, sorted weight multiset, empty diagonal, symmetry, out-strength, identity when nothing was rewired, "
        "latticisation re-index relation) plus, through the BCTPY_VERIF per-swap hook, edge-list/matrix correspondence and degree "
        "preservation after every accepted swap. Non-trivial = at least one swap was carried out (eff>=1 or output != input) on a graph with "
        ">= 3 distinct degree values or unequal in/out degree sequences; distinct by hash of the whole case.")
BOUNDS = {"n": "4..12 quick, 4..24 thorough; up to 32 in the large unit", "itr": [0, 1, 2, 5], "per_call_timeout_s": 10}
MIN_NONTRIVIAL = {"quick": 300, "thorough": 3000}


def _deg(X):
    S = (np.asarray(X) != 0)
    return S.sum(axis=0), S.sum(axis=1)       # in-degree (columns), out-degree (rows)


def _weights(X):
    X = np.asarray(X, dtype=float)
    return np.sort(X[X != 0])


def _invariants(name, W, X, directed, case, fails, what="output", nearsym=False):
    """Degree / multiset / diagonal / symmetry / out-strength of X vs W (same numbering)."""
    X = np.asarray(X)
    if X.shape != W.shape:
        fails.append(Failure("%s:%s-shape" % (name, what), "%s" % (X.shape,), case))
        return
    id0, od0 = _deg(W)
    id1, od1 = _deg(X)
    if not np.array_equal(id0, id1):
        v = int(np.argmax(id0 != id1))
        fails.append(Failure("%s:%s-indegree-changed" % (name, what), "node %d: in-degree %d -> %d" % (v, id0[v], id1[v]), case))
    if not np.array_equal(od0, od1):
        v = int(np.argmax(od0 != od1))
        fails.append(Failure("%s:%s-outdegree-changed" % (name, what), "node %d: out-degree %d -> %d" % (v, od0[v], od1[v]), case))
    w0, w1 = _weights(W), _weights(X)
    if w0.shape != w1.shape or not np.array_equal(w0, w1):
        fails.append(Failure("%s:%s-weight-multiset-changed" % (name, what), "%d weights -> %d weights" % (len(w0), len(w1)), case))
    if np.any(np.diag(X) != 0):
        fails.append(Failure("%s:%s-self-connection-created" % (name, what), "diag %s" % np.diag(X), case))
    if not directed:
        # (input symmetric only up to round-off: the output has to be symmetric to the same degree, every weight still exactly preserved)
        if not (np.allclose(X, X.T, rtol=1e-5, atol=0) and np.array_equal(X != 0, X.T != 0) if nearsym else np.array_equal(X, X.T)):
            fails.append(Failure("%s:%s-not-symmetric" % (name, what), "", case))
    else:
        s0 = np.asarray(W, dtype=float).sum(axis=1)
        s1 = np.asarray(X, dtype=float).sum(axis=1)
        if not np.array_equal(s0, s1):
            v = int(np.argmax(s0 != s1))
            fails.append(Failure("%s:%s-outstrength-changed" % (name, what), "node %d: %r -> %r" % (v, s0[v], s1[v]), case))


def _check_events(name, rec, W, directed, case, ctx, fails, ind_rp=None):
    """Per accepted swap: edge list == support of R; degrees == initial (in the routine's numbering)."""
    if not rec.events:
        return
    ctx.hook_events += len(rec.events)
    W0 = W if ind_rp is None else W[np.ix_(ind_rp, ind_rp)]
    id0, od0 = _deg(W0)
    for t, ev in enumerate(rec.events):
        R, i, j = ev["R"], ev["i"], ev["j"]
        S = (R != 0)
        if directed:
            listed = set(zip(i.tolist(), j.tolist()))
            actual = set(zip(*np.nonzero(S)))
            ok = (listed == {(int(a), int(b)) for a, b in actual}) and len(listed) == len(i)
        else:
            listed = {frozenset((a, b)) for a, b in zip(i.tolist(), j.tolist())}
            iu = np.nonzero(np.triu(S | S.T, 1))
            actual = {frozenset((int(a), int(b))) for a, b in zip(*iu)}
            ok = (listed == actual) and len(listed) == len(i)
        if not ok:
            fails.append(Failure("%s:step-edge-list-out-of-sync-with-matrix" % name,
                                 "after accepted swap #%d (e1=%d,e2=%d) the edge list and the support of R differ" % (t + 1, ev["e1"], ev["e2"]), case))
            return
        id1, od1 = _deg(R)
        if not (np.array_equal(id0, id1) and np.array_equal(od0, od1)):
            fails.append(Failure("%s:step-degree-changed" % name, "after accepted swap #%d a degree changed" % (t + 1), case))
            return


def check(case, ctx):
    name = case["fn"]
    W = np.array(case["W"], dtype=float)
    order = case.get("order")
    seed = case["seed"]
    fails = []
    fn = getattr(bct, name)
    ctx.label("layout:" + str(order or "C"))
    directed = name in rewire.DIR
    ctx.label("fn:" + name)
    ctx.label("family:" + case.get("family", "?"))
    id0, od0 = _deg(W)
    rich = len(set(id0.tolist())) >= 3 or not np.array_equal(id0, od0)
    ns = bool(case.get("nearsym"))
    if ns:
        ctx.label("symmetric-only-up-to-round-off")

    with rewire.SwapRecorder() as rec:
        if name in rewire.LATMIO:
            D = case.get("D")
            o = ctx.call(fn, gen.layout(W.copy(), order), case["itr"], D=(None if D is None else np.array(D, dtype=float)), seed=seed)
        elif name == "randomize_graph_partial_und":
            o = ctx.call(fn, gen.layout(W.copy(), order), np.array(case["B"], dtype=float), case["maxswap"], seed=seed, timeout=1.5)
        elif name == "randomizer_bin_und":
            o = ctx.call(fn, gen.layout(W.copy(), order), case["alpha"], seed=seed)
        else:
            o = ctx.call(fn, gen.layout(W.copy(), order), case["itr"], seed=seed)
    if o.status == "timeout":
        return fails
    if o.status == "reject":
        ctx.label("rejected:" + name)
        return fails
    if not o.ok:
        return [Failure("crash:%s:%s" % (name, o.exc_name()), repr(o.exc)[:200], case)]

    moved = False
    if name in rewire.LATMIO:
        try:
            Rlatt, Rrp, ind_rp, eff = o.value
            Rlatt, Rrp = np.asarray(Rlatt, dtype=float), np.asarray(Rrp, dtype=float)
            ind_rp = np.asarray(ind_rp)
        except Exception:
            return [Failure("%s:bad-return" % name, repr(o.value)[:200], case)]
        n = len(W)
        if sorted(ind_rp.tolist()) != list(range(n)):
            fails.append(Failure("%s:ind_rp-not-a-permutation" % name, "%s" % ind_rp, case))
            return fails
        _invariants(name, W, Rlatt, directed, case, fails, "Rlatt(original-order)", nearsym=ns)
        _invariants(name, W[np.ix_(ind_rp, ind_rp)], Rrp, directed, case, fails, "Rrp(latticisation-order)", nearsym=ns)
        if Rlatt.shape == Rrp.shape and not np.array_equal(Rlatt[np.ix_(ind_rp, ind_rp)], Rrp):
            fails.append(Failure("%s:Rlatt-not-Rrp-reindexed-by-ind_rp" % name,
                                 "Rlatt[ix(ind_rp,ind_rp)] != Rrp (ind_rp=%s)" % ind_rp.tolist(), case))
        if (case["itr"] == 0 or eff == 0) and not np.array_equal(Rlatt, W):
            fails.append(Failure("%s:changed-although-nothing-rewired" % name, "itr=%s eff=%s but Rlatt != input" % (case["itr"], eff), case))
        moved = eff >= 1
        _check_events(name, rec, W, directed, case, ctx, fails, ind_rp=ind_rp)
        if rec.available and rec.count != eff and rec.count > 0:
            fails.append(Failure("%s:eff-differs-from-swaps-carried-out" % name, "eff=%s, accepted swaps observed=%d" % (eff, rec.count), case))
    elif name in ("randomize_graph_partial_und", "randomizer_bin_und"):
        X = np.asarray(o.value, dtype=float)
        _invariants(name, W, X, False, case, fails, nearsym=ns)
        if name == "randomize_graph_partial_und":
            if case["maxswap"] == 0 and not np.array_equal(X, W):
                fails.append(Failure("%s:changed-although-nothing-rewired" % name, "maxswap=0", case))
            _check_events(name, rec, W, False, case, ctx, fails)
        else:
            if case["alpha"] == 0 and not np.array_equal(X, W):
                fails.append(Failure("%s:changed-although-nothing-rewired" % name, "alpha=0", case))
            if X.shape == W.shape and not np.all((X == 0) | (X == 1)):
                fails.append(Failure("%s:output-not-binary" % name, "values %s" % np.unique(X)[:5], case))
        moved = X.shape == W.shape and not np.array_equal(X, W)
    else:
        try:
            X, eff = o.value
            X = np.asarray(X, dtype=float)
        except Exception:
            return [Failure("%s:bad-return" % name, repr(o.value)[:200], case)]
        _invariants(name, W, X, directed, case, fails, nearsym=ns)
        if (case["itr"] == 0 or eff == 0) and not np.array_equal(X, W):
            fails.append(Failure("%s:changed-although-nothing-rewired" % name, "itr=%s eff=%s but output != input" % (case["itr"], eff), case))
        moved = eff >= 1
        _check_events(name, rec, W, directed, case, ctx, fails)
        if rec.available and rec.count != eff and rec.count > 0:
            fails.append(Failure("%s:eff-differs-from-swaps-carried-out" % name, "eff=%s, accepted swaps observed=%d" % (eff, rec.count), case))
    if moved:
        ctx.label("moved")
    ctx.target(rec.count, "accepted-swaps")
    if moved and rich:
        ctx.mark_nontrivial(case)
    return fails


# ----------------------------------------------------------------------
def _swap_feasible(A, B):
    """Some pair of vertex-disjoint connections can be swapped without hitting an existing or masked cell."""
    n = len(A)
    E = [(i, j) for i in range(n) for j in range(n) if A[i, j]]
    for (a, b) in E:
        for (c, d) in E:
            if len({a, b, c, d}) == 4 and not (A[a, d] or A[c, b] or B[a, d] or B[c, b]):
                return True
    return False


@st.composite
def cases(draw, names, nmax):
    name = draw(st.sampled_from(names))
    directed = name in rewire.DIR
    connected = name in rewire.CONNECTED
    if directed:
        A, fam = draw(rewire.dir_adj(4, nmax, connected))
    else:
        A, fam = draw(rewire.und_adj(4, nmax, connected))
        if nmax >= 30 and not connected and draw(st.integers(0, 2)) == 0:
            # hub-dominated network: a hub with 46-62 spokes and one or two connections elsewhere. Two random connections are
            # vertex-disjoint only ~3% of the time, so the redraw loops of the routines run for dozens of rounds
            m = draw(st.integers(48, 64))
            A = gen.star_adj(m).copy()
            A[1, 2] = A[2, 1] = True
            if draw(st.booleans()):
                A[3, 4] = A[4, 3] = True
            fam = "hub"
    A = rewire.shuffle(draw, A)
    n = len(A)
    if name == "randomizer_bin_und":
        # this routine special-cases dense graphs (works on the complement) and nodes connected to everybody:
        # make isolated nodes and full nodes common, in sparse and in dense graphs
        A = A.copy()
        mod = draw(st.sampled_from(["none", "none", "isolated", "full", "both", "densify"]))
        if mod == "densify":
            A = A | draw(gen.er_adj(n, False, "dense"))
            mod = draw(st.sampled_from(["none", "isolated", "full"]))
        if mod in ("isolated", "both"):
            v = draw(st.integers(0, n - 1))
            A[v, :] = False
            A[:, v] = False
        if mod in ("full", "both"):
            u = draw(st.integers(0, n - 1))
            if mod != "both" or u != v:
                keep = A[:, v].copy() if mod == "both" else None
                A[u, :] = True
                A[:, u] = True
                A[u, u] = False
                if mod == "both":
                    A[v, :] = False
                    A[:, v] = False
        fam = fam + "/" + mod
        W = A.astype(float)
    else:
        W = draw(gen.weights_for(A, draw(st.sampled_from(["bin", "dyadic", "dyadic"])), directed))
    case = {"fn": name, "W": W, "seed": draw(gen.seeds()), "family": fam, "order": draw(st.sampled_from(gen.ORDERS))}
    if name in ("randmio_und", "latmio_und", "randomize_graph_partial_und") and not np.all((W == 0) | (W == 1)) and draw(st.integers(0, 3)) == 0:
        # symmetric only up to round-off (upper triangle larger by 4e-6 relative): accepted by the routines' own symmetry test,
        # so every one of the 2m stored weights has to survive
        W = W.copy()
        iu = np.triu_indices(n, 1)
        W[iu] = W[iu] * (1 + 2.0 ** -18)
        case["W"] = W
        case["nearsym"] = True
    if name == "randomize_graph_partial_und":
        case["maxswap"] = (draw(st.integers(0, 10)) + 3) % 11        # minimal draw -> 3 swaps, not 0
        dens = draw(st.sampled_from([0, 2, 5]))
        vals = draw(st.lists(st.integers(0, 9), min_size=n * (n - 1) // 2, max_size=n * (n - 1) // 2))
        B = np.zeros((n, n))
        for (i, j), v in zip(gen.pairs(n, False), vals):
            if v < dens:
                B[i, j] = B[j, i] = 1
        case["B"] = B
        if not _swap_feasible(A, B):
            case["maxswap"] = 0      # nothing can be rewired: the routine would search forever (implicit precondition)
    elif name == "randomizer_bin_und":
        case["alpha"] = draw(st.sampled_from([0.7, 1.0, 0.3, 0.0]))
    else:
        case["itr"] = draw(st.sampled_from([2, 1, 5, 0, 1, 2]))
        if name in rewire.LATMIO:
            if draw(st.booleans()):
                vals = draw(st.lists(st.integers(0, 6), min_size=n * (n - 1) // 2, max_size=n * (n - 1) // 2))
                D = np.zeros((n, n))
                for (i, j), v in zip(gen.pairs(n, False), vals):
                    D[i, j] = D[j, i] = v
                case["D"] = D
            else:
                case["D"] = None
    return case


def units(tier):
    nmax = 10 if tier == "quick" else 20
    us = []
    for name in rewire.UND + rewire.DIR:
        us.append(Unit(name, check, strategy=(lambda nm=name: cases([nm], nmax)), examples=(300, 5000), shards=(2, 8)))
    # larger networks (every routine): long edge lists, many candidate swaps, several rounds of the attempt loops
    us.append(Unit("all-routines-n<=32", check, strategy=lambda: cases(rewire.UND + rewire.DIR, 32), examples=(96, 1600), shards=(16, 16)))
    return us
