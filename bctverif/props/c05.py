"""C05 -- seeded calls are reproducible and never touch the global random stream.

Histories (reseed / draw / seeded call / unseeded call) are generated as one value -- a list of operations --
and interpreted against a reference model of numpy's global generator (a private RandomState that mirrors
every legitimate use of the global stream). This is rule-based stateful testing with the whole history as the
shrinkable, replayable case."""
import inspect
import random

import numpy as np
from hypothesis import strategies as st

import bct

from .. import compare, gen, rewire, modcases as mc
from ..core import Failure, Unit
from . import c01, c06, c20

PROPERTY = "C05"
RULE = ("Cases = (function, history) -- plus a mixed-history unit whose histories interleave calls to 22 different seed-accepting routines, so that state leaking from one routine into another is observable: for each public function with a `seed` parameter (found by introspection of the bct namespace) a "
        "history of up to 8 operations drawn from {np.random.seed(s), k draws from the global generator (rand/randint/permutation), seeded "
        "call (int seed), unseeded call} with small generated arguments (n<=8). Oracle = reference model of the global stream: after every "
        "operation np.random.get_state() must equal the model's state bit for bit (a seeded call must leave it untouched; an unseeded call "
        "may advance it); seeded call repeated gives an identical result; int seed == RandomState(int) seed; unseeded call replayed from the "
        "saved global state (with Python's `random` module perturbed) gives an identical result, also when called with seed=np.random. "
        "Fresh-interpreter differential: 2-5 seeded calls (latticisation family on one size with default and caller-supplied D mixed, or any "
        "routines) made in the long-lived worker and again in a brand-new Python process must give bit-identical results. Dense unit: nearly "
        "complete networks of 32-40 nodes. "
        "Non-trivial = a seeded step that completed without exception, whose result differs between seed and seed+1, preceded in the same "
        "history by at least one draw from the global generator; distinct by hash of (function, arguments, seed).")
BOUNDS = {"n": "<=8", "history_length": "<=8", "functions": "all seed-accepting public functions"}
MIN_NONTRIVIAL = {"quick": 300, "thorough": 3000}


def seed_functions():
    out = []
    for n in sorted(dir(bct)):
        f = getattr(bct, n)
        if callable(f) and not n.startswith("_"):
            try:
                if "seed" in inspect.signature(f).parameters:
                    out.append(n)
            except (TypeError, ValueError):
                pass
    return out


# ----------------------------------------------------------------------
# argument registry: name -> strategy of (args tuple, kwargs dict) without seed
# ----------------------------------------------------------------------
@st.composite
def _from_c01(draw, name):
    c = draw(c01.cases([name], 7))
    W = c["W"]
    if name in rewire.LATMIO:
        return (W, min(c["itr"], 2)), {"D": c.get("D")}
    if name == "randomize_graph_partial_und":
        return (W, c["B"], min(c["maxswap"], 3)), {}
    if name == "randomizer_bin_und":
        return (W, c["alpha"]), {}
    return (W, min(c["itr"], 2)), {}


@st.composite
def _from_c06(draw, name):
    c = draw(c06.cases(name, 7))
    if name.startswith("null_model"):
        return (c["W"],), {"bin_swaps": min(c["itr"], 2), "wei_freq": c["wei_freq"]}
    return (c["W"], min(c["itr"], 2)), {}


@st.composite
def _from_c20(draw, name):
    key = {"makerandCIJ_und": "rand_und", "makerandCIJ_dir": "rand_dir", "makeringlatticeCIJ": "ring", "maketoeplitzCIJ": "toeplitz",
           "makeevenCIJ": "even", "makefractalCIJ": "fractal", "makerandCIJdegreesfixed": "degfixed"}[name]
    for _ in range(50):
        c = draw(c20.cases())
        if c["gen"] == key:
            break
    else:
        c = None
    if c is None or c["gen"] != key:
        # direct small construction
        if key in ("rand_und", "rand_dir", "ring"):
            n = draw(st.integers(3, 8))
            c = {"n": n, "k": draw(st.integers(1, n * (n - 1) // 2))}
        elif key == "toeplitz":
            c = {"n": 6, "k": draw(st.integers(2, 8)), "s": 1.0}
        elif key == "even":
            c = {"n": 8, "k": draw(st.integers(24, 40)), "sz_cl": 2}
        elif key == "fractal":
            c = {"mx_lvl": 3, "E": 2.0, "sz_cl": 2}
        else:
            A = draw(gen.er_adj(draw(st.integers(3, 7)), True))
            c = {"inv": A.sum(axis=0).astype(int), "outv": A.sum(axis=1).astype(int)}
    if key in ("rand_und", "rand_dir", "ring"):
        return (min(c["n"], 10), min(c["k"], 40) if c["n"] <= 10 else 20), {}
    if key == "toeplitz":
        return (c["n"], c["k"], c["s"]), {}
    if key == "even":
        n = min(c["n"], 16)
        sz = min(c["sz_cl"], 3)
        k = max(n * (2 ** sz - 1), min(c["k"], n * (n - 1)))
        return (n, k, sz), {}
    if key == "fractal":
        return (min(c["mx_lvl"], 4), c["E"], min(c["sz_cl"], 3)), {}
    return (np.asarray(c["inv"]), np.asarray(c["outv"])), {}


@st.composite
def _from_mc(draw, name):
    c = draw(mc.cases(name, 7))
    W, g = c["W"], c["gamma"]
    ci = c.get("ci0")
    if name == "community_louvain":
        return (W,), {"gamma": g, "ci": ci, "B": c["objective"]}
    if name in ("modularity_louvain_und", "modularity_louvain_dir"):
        return (W,), {"gamma": g, "hierarchy": c.get("hierarchy", False)}
    if name == "modularity_louvain_und_sign":
        return (W,), {"gamma": g, "qtype": c["qtype"]}
    if name in ("modularity_finetune_und", "modularity_finetune_dir"):
        return (W,), {"ci": ci, "gamma": g}
    if name == "modularity_finetune_und_sign":
        return (W,), {"qtype": c["qtype"], "gamma": g, "ci": ci}
    return (W,), {"qtype": c["qtype"], "gamma": g, "ci": ci, "p": c["p"]}


@st.composite
def _wmat(draw, directed, nmin=4, nmax=8, kind="dyadic"):
    n = draw(st.integers(nmin, nmax))
    A = draw(gen.er_adj(n, directed, draw(st.sampled_from(["medium", "dense"]))))
    A[0, 1] = True
    if not directed:
        A[1, 0] = True
    return draw(gen.weights_for(A, kind, directed))


@st.composite
def _misc(draw, name):
    if name == "core_periphery_dir":
        return (draw(_wmat(True)),), {"gamma": draw(st.sampled_from([1, 0.8]))}
    if name == "consensus_und":
        return (draw(_wmat(False, 4, 7)), draw(st.sampled_from([0.2, 0.4, 0.6]))), {"reps": draw(st.integers(2, 4))}
    if name == "rentian_scaling":
        W = draw(_wmat(False, 5, 8, "bin"))
        n = len(W)
        pts = draw(st.lists(st.tuples(st.integers(0, 6), st.integers(0, 6), st.integers(0, 6)), min_size=n, max_size=n))
        return (W, np.array(pts, dtype=float), draw(st.integers(2, 5))), {}
    if name == "nbs_bct":
        n = draw(st.integers(4, 5))
        nx, ny = draw(st.integers(3, 4)), draw(st.integers(3, 4))
        paired = draw(st.booleans())
        if paired:
            ny = nx
        m = n * (n - 1) // 2

        def stack(k):
            vals = draw(st.lists(st.integers(-4, 4), min_size=m * k, max_size=m * k))
            X = np.zeros((n, n, k))
            it = iter(vals)
            for s in range(k):
                for (i, j) in gen.pairs(n, False):
                    v = next(it) / 2.0
                    X[i, j, s] = X[j, i, s] = v
            return X
        x, y = stack(nx), stack(ny)
        y[0, 1, :] += 3
        y[1, 0, :] += 3
        y[1, 2, :] += 3
        y[2, 1, :] += 3
        return (x, y, draw(st.sampled_from([0.5, 1.0, 2.0]))), {"k": draw(st.integers(2, 6)), "tail": draw(st.sampled_from(["both", "left", "right"])), "paired": paired}
    if name in ("generative_model", "evaluate_generative_model"):
        n = draw(st.integers(5, 7))
        A = np.zeros((n, n))
        A[0, 1] = A[1, 0] = 1
        A[2, 3] = A[3, 2] = 1
        pts = draw(st.lists(st.tuples(st.integers(0, 5), st.integers(0, 5)), min_size=n, max_size=n, unique=True))
        P = np.array(pts, dtype=float)
        D = np.sqrt(((P[:, None, :] - P[None, :, :]) ** 2).sum(-1))
        mt = draw(st.sampled_from(["euclidean", "neighbors", "matching", "clu-avg", "deg-avg", "deg-prod"]))
        ncomb = draw(st.sampled_from([2, 1, 3]))       # several (eta, gamma) combinations in one call: one seed drives all of them
        kw = {"eta": np.array([draw(st.sampled_from([-2.0, -1.0, -0.5])) for _ in range(ncomb)]),
              "gamma": np.array([draw(st.sampled_from([0.5, 1.0, 0.25])) for _ in range(ncomb)]),
              "model_type": mt, "model_var": draw(st.sampled_from(["powerlaw", "exponential"]))}
        if name == "generative_model":
            return (A, D, draw(st.integers(3, 6))), kw
        T = draw(gen.er_adj(n, False, "medium")).astype(float)
        T[0, 1] = T[1, 0] = 1
        T[2, 3] = T[3, 2] = 1
        T[1, 2] = T[2, 1] = 1
        return (A, T, D), kw
    if name == "generate_fc":
        return (draw(_wmat(False)), 0.5), {}
    if name == "get_rng":
        return (), {}
    if name == "pick_four_unique_nodes_quickly":
        # every size class: tiny (many rejections), beyond int32 for n**4 (n >= 216), large
        return (draw(st.one_of(st.integers(4, 9), st.integers(200, 260), st.integers(1000, 50000))),), {}
    raise KeyError(name)


def arg_strategy(name):
    if name in rewire.UND + rewire.DIR:
        return _from_c01(name)
    if name in ("randmio_und_signed", "randmio_dir_signed", "null_model_und_sign", "null_model_dir_sign"):
        return _from_c06(name)
    if name.startswith("make"):
        return _from_c20(name)
    if name in mc.ROUTINES:
        return _from_mc(name)
    return _misc(name)


REGISTERED = None


def registered():
    global REGISTERED
    if REGISTERED is None:
        ok = []
        for n in seed_functions():
            try:
                arg_strategy(n)
                ok.append(n)
            except KeyError:
                pass
        REGISTERED = ok
    return REGISTERED


def _seeds():
    """integer seeds: mostly in [0, 2^32), sometimes negative or >= 2^32 (get_rng documents any hashable seed and folds these);
    repeated small values are common so that the same seed is used several times within one history"""
    return st.one_of(st.integers(0, 5), gen.seeds(), st.sampled_from([-1, -12345, 2 ** 32, 2 ** 40 + 17, -2 ** 31]))


@st.composite
def cases(draw, name):
    args, kwargs = draw(arg_strategy(name))
    nops = draw(st.integers(2, 8))
    ops = []
    for _ in range(nops):
        kind = draw(st.sampled_from(["seeded", "draw", "unseeded", "seeded", "draw", "seeded", "reseed"]))
        if kind == "reseed":
            ops.append(["reseed", draw(st.integers(0, 2 ** 32 - 1))])
        elif kind == "draw":
            ops.append(["draw", draw(st.sampled_from(["rand", "randint", "permutation"])), draw(st.integers(1, 7))])
        elif kind == "seeded":
            ops.append(["seeded", draw(_seeds())])
        else:
            ops.append(["unseeded", draw(st.booleans())])
    return {"fn": name, "args": list(args), "kwargs": kwargs, "ops": ops}


# ----------------------------------------------------------------------
def _copy(x):
    if isinstance(x, np.ndarray):
        return x.copy()
    if isinstance(x, (list, tuple)):
        return type(x)(_copy(v) for v in x)
    return x


def _norm(o):
    """make RandomState results comparable"""
    if o.ok and isinstance(o.value, np.random.RandomState):
        st_ = o.value.get_state()
        o.value = (st_[0], st_[1].copy(), st_[2], st_[3], st_[4])
    return o


def _state_eq(a, b):
    return a[0] == b[0] and np.array_equal(a[1], b[1]) and a[2:] == b[2:]


def _prep(name, args, kwargs):
    a = [np.array(x) if isinstance(x, (list, np.ndarray)) and name not in ("get_rng",) and np.ndim(x) > 0 else x for x in args]
    kw = {k: (np.array(v) if isinstance(v, (list, np.ndarray)) and v is not None and np.ndim(v) > 0 else v) for k, v in kwargs.items()}
    return a, kw


def check(case, ctx):
    name = case["fn"]
    if name == "<fresh>":
        return check_fresh(case, ctx)
    mixed = name == "<mixed>"
    fails = []
    ctx.label("fn:" + name)
    cur = {}
    if not mixed:
        cur["fn"] = getattr(bct, name)
        cur["args"], cur["kwargs"] = _prep(name, case["args"], case["kwargs"])
        cur["name"] = name

    def run(**extra):
        a = [_copy(x) for x in cur["args"]]
        kw = {k: _copy(v) for k, v in cur["kwargs"].items()}
        kw.update(extra)
        return _norm(ctx.call(cur["fn"], *a, timeout=8.0, **kw))

    model = np.random.RandomState(0)
    np.random.seed(424242)
    model.seed(424242)
    drew = False
    for t, op in enumerate(case["ops"]):
        kind = op[0]
        if mixed and kind in ("seeded", "unseeded"):
            # histories over several functions: state leaking from one routine into another shows up here
            call = op[2]
            cur["name"] = name = call["fn"]
            cur["fn"] = getattr(bct, name)
            cur["args"], cur["kwargs"] = _prep(name, call["args"], call["kwargs"])
        if kind == "reseed":
            np.random.seed(int(op[1]))
            model.seed(int(op[1]))
        elif kind == "draw":
            k = int(op[2])
            if op[1] == "rand":
                np.random.rand(k); model.rand(k)
            elif op[1] == "randint":
                np.random.randint(1000, size=k); model.randint(1000, size=k)
            else:
                np.random.permutation(k); model.permutation(k)
            drew = True
        elif kind == "seeded":
            s = int(op[1])
            r1 = run(seed=s)
            if r1.status == "timeout":
                return fails
            r2 = run(seed=s)
            d, how = compare.outcomes_equal(r1, r2)
            if d:
                fails.append(Failure("%s:same-seed-different-result" % name, "step %d, seed %d: %s" % (t, s, d), case))
            if 0 <= s < 2 ** 32:          # RandomState(int) exists only for seeds in [0, 2^32)
                r3 = run(seed=np.random.RandomState(s))
                d, how = compare.outcomes_equal(r1, r3)
                if d:
                    fails.append(Failure("%s:int-seed-differs-from-RandomState-seed" % name, "step %d, seed %d: %s" % (t, s, d), case))
            else:
                ctx.label("out-of-range-int-seed")
            if not _state_eq(np.random.get_state(), model.get_state()):
                fails.append(Failure("%s:seeded-call-touched-global-generator" % name,
                                     "step %d: np.random state changed during a call with seed=%d" % (t, s), case))
                return fails
            if r1.ok:
                ctx.notes["seeded-ok"] += 1
                r4 = run(seed=s + 1)
                d4, _ = compare.outcomes_equal(r1, r4)
                if d4 and drew:
                    ctx.mark_nontrivial({"fn": name, "args": cur["args"], "kwargs": cur["kwargs"], "seed": s})
            else:
                ctx.notes["seeded-raises:" + name + ":" + str(r1.exc_name())] += 1
        else:
            S = np.random.get_state()
            pyS = random.getstate()
            r1 = run()
            if r1.status == "timeout":
                return fails
            after = np.random.get_state()
            np.random.set_state(S)
            random.seed(987654321 + t)         # perturb every other source of randomness
            r2 = run(seed=np.random) if op[1] else run(seed=None)
            d, how = compare.outcomes_equal(r1, r2)
            if d:
                fails.append(Failure("%s:unseeded-result-not-a-function-of-global-state" % name,
                                     "step %d: replay from the saved np.random state gave a different result: %s" % (t, d), case))
            if r1.ok and r2.ok and not _state_eq(np.random.get_state(), after):
                fails.append(Failure("%s:unseeded-replay-leaves-different-global-state" % name, "step %d" % t, case))
            random.setstate(pyS)
            model.set_state(np.random.get_state())
        if not _state_eq(np.random.get_state(), model.get_state()):
            fails.append(Failure("%s:global-generator-diverged-from-model" % name, "after step %d (%s)" % (t, kind), case))
            return fails
        if fails:
            return fails
    return fails


def check_fresh(case, ctx):
    """The calls of the case are made here, in a worker that has already made thousands of unrelated library calls, and again in a
    brand-new interpreter (bctverif/fresh.py). Identical arguments and seed must give identical results in both: anything the library
    remembers between calls (memoised tables, caches keyed on size or identity, aliased buffers) shows up as a difference."""
    import os, pickle, subprocess, sys
    from .. import fresh
    fails = []
    ctx.label("fn:<fresh-interpreter>")
    calls = []
    here = []
    for c in case["calls"]:
        a, kw = _prep(c["fn"], c["args"], c["kwargs"])
        kw = dict(kw)
        sd = c["seed"]
        kw["seed"] = int(sd) if isinstance(sd, (int, np.integer)) else (tuple(sd) if isinstance(sd, list) else sd)
        calls.append((c["fn"], a, kw))
        o = ctx.call(getattr(bct, c["fn"]), *[_copy(x) for x in a], timeout=8.0, **{k: _copy(v) for k, v in kw.items()})
        if o.status == "timeout":
            return fails
        here.append(("ok", fresh._norm(o.value)) if o.ok else ("exc", o.exc_name()))
        ctx.label("fresh:" + c["fn"])
    env = dict(os.environ)
    env["PYTHONHASHSEED"] = "4242"         # another hash salt than the worker's: nothing seeded may depend on hash()
    env["PYTHONPATH"] = os.pathsep.join([os.path.dirname(os.path.dirname(os.path.dirname(os.path.abspath(__file__))))] + [p for p in env.get("PYTHONPATH", "").split(os.pathsep) if p])
    try:
        r = subprocess.run([sys.executable, "-m", "bctverif.fresh"], input=pickle.dumps(calls, protocol=4), capture_output=True, timeout=120, env=env)
    except subprocess.TimeoutExpired:
        ctx.notes["fresh-interpreter-timeout(inconclusive)"] += 1
        return fails
    if r.returncode != 0:
        ctx.notes["fresh-interpreter-failed(inconclusive):" + r.stderr.decode(errors="replace")[-120:]] += 1
        return fails
    there = pickle.loads(r.stdout)
    for t, (c, x, y) in enumerate(zip(case["calls"], here, there)):
        if x[0] != y[0] or (x[0] == "exc" and x[1] != y[1]):
            d = "in the worker: %s, in a fresh interpreter: %s" % (x[0] if x[0] == "ok" else x[1], y[0] if y[0] == "ok" else y[1])
        elif x[0] == "ok":
            d = compare.deep_equal(x[1], y[1], 0.0, 0.0)
        else:
            d = None
        if d:
            fails.append(Failure("%s:result-differs-from-fresh-interpreter" % c["fn"],
                                 "call %d of %d (seed %r): %s" % (t + 1, len(calls), c["seed"], d), case))
            break
    if any(x[0] == "ok" for x in here):
        ctx.mark_nontrivial(case)
    return fails


_check_history = None


@st.composite
def cases_fresh(draw):
    calls = []
    if draw(st.booleans()):
        # latticisation family on networks of one size, default and caller-supplied distance matrices mixed
        n = draw(st.integers(5, 9))
        for _ in range(draw(st.integers(2, 5))):
            name = draw(st.sampled_from(rewire.LATMIO))
            directed = name in rewire.DIR
            A, _ = draw((rewire.dir_adj if directed else rewire.und_adj)(n, n, name in rewire.CONNECTED))
            A = rewire.shuffle(draw, A)
            W = draw(gen.weights_for(A, draw(st.sampled_from(["dyadic", "bin"])), directed))
            D = None
            if draw(st.booleans()):
                vals = draw(st.lists(st.integers(0, 6), min_size=n * (n - 1) // 2, max_size=n * (n - 1) // 2))
                D = np.zeros((n, n))
                for (i, j), v in zip(gen.pairs(n, False), vals):
                    D[i, j] = D[j, i] = v
            calls.append({"fn": name, "args": [W, draw(st.integers(1, 2))], "kwargs": {"D": D}, "seed": draw(st.integers(0, 5))})
    else:
        for _ in range(draw(st.integers(2, 5))):
            fn = draw(st.sampled_from(MIXED_POOL + rewire.LATMIO))
            a, kw = draw(arg_strategy(fn))
            sd = draw(st.sampled_from([0, 1, 2, 3, "subject-07", 5, ["run", 3], 4.0]))
            calls.append({"fn": fn, "args": list(a), "kwargs": kw, "seed": sd})
    return {"fn": "<fresh>", "calls": calls}


@st.composite
def cases_dense(draw):
    """larger and nearly complete networks (n 32..40, at most ~5% of the pairs unconnected): size / density classes of their own"""
    name = draw(st.sampled_from(["randmio_und_connected", "randmio_und", "randmio_dir", "randmio_dir_connected", "latmio_und", "latmio_und_connected",
                                 "randmio_und_signed", "randmio_dir_signed"]))
    directed = "_dir" in name
    n = draw(st.integers(32, 40))
    A = np.ones((n, n), dtype=bool)
    np.fill_diagonal(A, False)
    holes = draw(st.lists(st.tuples(st.integers(0, n - 1), st.integers(0, n - 1)), min_size=4, max_size=n * (n - 1) // 40))
    for (i, j) in holes:
        if i != j:
            A[i, j] = False
            if not directed:
                A[j, i] = False
    W = A.astype(float)
    if name.endswith("_signed"):
        sg = draw(st.lists(st.booleans(), min_size=n, max_size=n))
        S = np.where(np.logical_xor.outer(np.array(sg), np.array(sg)), -1.0, 1.0)
        W = W * (S if not directed else S)
    ops = [["draw", "rand", 3], ["seeded", draw(st.integers(0, 5))], ["draw", "randint", 2], ["seeded", draw(gen.seeds())]]
    kwargs = {"D": None} if name in rewire.LATMIO else {}
    return {"fn": name, "args": [W, 1], "kwargs": kwargs, "ops": ops}


MIXED_POOL = ["randmio_und", "randmio_dir", "latmio_und", "randmio_und_signed", "null_model_und_sign", "makerandCIJ_und", "makerandCIJ_dir",
              "makeringlatticeCIJ", "makeevenCIJ", "community_louvain", "modularity_louvain_und", "modularity_finetune_und",
              "modularity_louvain_und_sign", "modularity_probtune_und_sign", "core_periphery_dir", "rentian_scaling", "nbs_bct",
              "generative_model", "pick_four_unique_nodes_quickly", "get_rng", "randomizer_bin_und", "consensus_und"]


@st.composite
def cases_mixed(draw):
    nops = draw(st.integers(3, 9))
    ops = []
    for _ in range(nops):
        kind = draw(st.sampled_from(["seeded", "draw", "unseeded", "seeded", "draw", "seeded", "unseeded", "reseed"]))
        if kind == "reseed":
            ops.append(["reseed", draw(st.integers(0, 2 ** 32 - 1))])
        elif kind == "draw":
            ops.append(["draw", draw(st.sampled_from(["rand", "randint", "permutation"])), draw(st.integers(1, 7))])
        else:
            fn = draw(st.sampled_from(MIXED_POOL))
            a, kw = draw(arg_strategy(fn))
            call = {"fn": fn, "args": list(a), "kwargs": kw}
            if kind == "seeded":
                ops.append(["seeded", draw(_seeds()), call])
            else:
                ops.append(["unseeded", draw(st.booleans()), call])
    return {"fn": "<mixed>", "ops": ops}


def units(tier):
    us = [Unit("mixed-history", check, strategy=cases_mixed, examples=(600, 8000), shards=(8, 16)),
          Unit("fresh-interpreter-differential", check, strategy=cases_fresh, examples=(320, 3200), shards=(16, 16)),
          Unit("dense-n>=32", check, strategy=cases_dense, examples=(32, 320), shards=(16, 16))]
    BOUNDS["seed_accepting_functions"] = len(seed_functions())
    BOUNDS["uncovered"] = [n for n in seed_functions() if n not in registered()]
    for name in registered():
        us.append(Unit(name, check, strategy=(lambda nm=name: cases(nm)), examples=(120, 1600), shards=(1, 4)))
    return us


ASSUMPTIONS = ["seed-accepting functions without an argument registry entry are listed under notes as 'uncovered'"]
