"""C15 -- k-core and s-core outputs are the maximal subnetworks meeting the degree bound."""
import numpy as np
from hypothesis import strategies as st

import bct

from .. import gen
from ..core import Failure, Unit
from ..oracles import cores as oc

PROPERTY = "C15"
RULE = ("Cases = (kind, matrix, k or s): kind 'bu' / 'bd' 0/1 graphs (complete enumeration of labelled graphs / digraphs up to the stated n x "
        "every k from 0 to maxdegree+1, checked against the subset-enumeration oracle; random n<=25 against an independent one-node-at-a-time "
        "peel), kind 'wu' symmetric matrices with weights k/8 and s on the grid of exactly attained strengths and those +-1/8. The coreness "
        "routines are checked on every enumerated graph. Non-trivial = the core is non-empty and smaller than the set of non-isolated nodes "
        "(so something was peeled and something survived); distinct by hash of (kind, matrix, k).")
BOUNDS = {"exhaustive_quick": "graphs n<=5, digraphs n<=3", "exhaustive_thorough": "graphs n<=6, digraphs n<=4", "random_n": "3..25"}
# units additionally driven by libFuzzer coverage feedback through hypothesis.fuzz_one_input (bctverif/fuzz.py)
FUZZ_UNITS = {"quick": ["random-binary"], "thorough": ["random-binary"]}
MIN_NONTRIVIAL = {"quick": 300, "thorough": 3000}


def _core(M, k, n):
    return oc.core_by_subsets(M, k) if n <= 6 else oc.core_by_peel(M, k)


def _restrict(W, S):
    R = np.zeros_like(W)
    idx = sorted(S)
    if idx:
        R[np.ix_(idx, idx)] = W[np.ix_(idx, idx)]
    return R


def _check_peel(name, W, M, k, core, order, level, case, fails):
    n = len(W)
    try:
        flat = [int(v) for arr in order for v in np.atleast_1d(arr)]
        lev = [float(v) for arr in level for v in np.atleast_1d(arr)]
    except Exception as e:
        fails.append(Failure("%s:peel-bad-return" % name, repr(e), case))
        return
    if len(flat) != len(set(flat)):
        fails.append(Failure("%s:peel-node-listed-twice" % name, "peelorder %s" % flat, case))
        return
    if len(lev) != len(flat):
        fails.append(Failure("%s:peel-level-length" % name, "order %s level %s" % (flat, lev), case))
        return
    deg0 = M.sum(axis=1)
    for v in flat:
        if v in core or deg0[v] <= 0:
            fails.append(Failure("%s:peel-lists-core-or-isolated-node" % name, "node %d listed; core %s" % (v, sorted(core)), case))
            return
    # every unlisted non-core node of positive degree must have been left isolated (never 'removed' itself)
    rest = [v for v in range(n) if v not in core and v not in flat and deg0[v] > 0]
    alive = [v for v in range(n) if v not in flat]
    for v in rest:
        if M[v, alive].sum() > 0:
            fails.append(Failure("%s:peel-misses-removed-node" % name, "node %d outside the core, unlisted, yet still connected to unlisted nodes" % v, case))
            return
    if lev:
        if lev != sorted(lev) or lev[0] != 1 or any(l != int(l) for l in lev) or (set(lev) != set(range(1, int(max(lev)) + 1))):
            fails.append(Failure("%s:peel-levels-not-1..T-nondecreasing" % name, "levels %s" % lev, case))
            return
        # aligned with the order: level t = nodes whose degree among (all minus earlier levels) is < k
        removed = set()
        for t in range(1, int(max(lev)) + 1):
            cur = [v for v, l in zip(flat, lev) if l == t]
            alive_t = [v for v in range(n) if v not in removed]
            for v in cur:
                d = M[v, alive_t].sum()
                if not (0 < d < k):
                    fails.append(Failure("%s:peel-level-misaligned" % name, "node %d at level %d has degree %s among remaining nodes (k=%s)" % (v, t, d, k), case))
                    return
            removed |= set(cur)


def check(case, ctx):
    kind = case["kind"]
    W = gen.layout(np.array(case["W"], dtype=float), case.get("order"))
    dt = case.get("dtype", "float64") if kind in ("bu", "bd") else "float64"
    ctx.label("dtype:" + dt)
    n = len(W)
    fails = []
    ctx.label("kind:" + kind)
    M = oc.contribution_matrix(W, kind)
    deg0 = M.sum(axis=1)
    nonisolated = int(np.sum(deg0 > 0))
    fn = {"bu": bct.kcore_bu, "bd": bct.kcore_bd, "wu": bct.score_wu}[kind]

    def run(f, *a, **kw):
        o = ctx.call(f, *a, **kw)
        if o.ok:
            return o.value
        if o.status != "timeout":
            fails.append(Failure("crash:%s:%s" % (f.__name__, o.exc_name()), repr(o.exc), case))
        return None

    levels = case["levels"]
    prev_core = None
    cores = {}
    for k in levels:
        core = _core(M, k, n)
        cores[k] = core
        if core and len(core) < nonisolated:
            ctx.mark_nontrivial({"kind": kind, "W": W, "k": k})
        r = run(fn, gen.layout(W.astype(dt), case.get("order")), k)
        if r is None:
            continue
        try:
            R, size = r
            R = np.asarray(R, dtype=float)
        except Exception:
            fails.append(Failure("%s:bad-return" % fn.__name__, repr(r)[:200], case))
            continue
        want = _restrict(W, core) if k > 0 else W
        if R.shape != W.shape or not np.array_equal(R, want):
            got_nodes = sorted(set(np.flatnonzero(R.sum(axis=0) + R.sum(axis=1) != 0).tolist())) if R.shape == W.shape else None
            fails.append(Failure("%s:matrix-not-input-restricted-to-maximal-set" % fn.__name__,
                                 "k=%s: nodes kept %s, maximal set %s" % (k, got_nodes, sorted(core)), case))
        if k > 0 and size != len(core):
            fails.append(Failure("%s:size-wrong" % fn.__name__, "k=%s: reported size %r, maximal set has %d nodes" % (k, size, len(core)), case))
        if prev_core is not None and not core <= prev_core:
            fails.append(Failure("oracle:cores-not-nested", "harness bug", case))
        prev_core = core
        if kind in ("bu", "bd") and k > 0:
            r = run(fn, W.astype(dt), k, peel=True)
            if r is not None:
                try:
                    R2, size2, order, level = r
                except Exception:
                    fails.append(Failure("%s:peel-bad-return" % fn.__name__, repr(r)[:200], case))
                    continue
                if not np.array_equal(np.asarray(R2, dtype=float), want) or size2 != size:
                    fails.append(Failure("%s:peel-changes-core" % fn.__name__, "k=%s" % k, case))
                _check_peel(fn.__name__, W, M, k, core, order, level, case, fails)

    # history: the caller keeps ONE array object: the deepest requested core first, then a shallower one of the same array (a routine that
    # peels its argument in place answers every single call correctly and spoils the later ones), then the array is edited in place
    # (one node cut off) and handed in again. Every oracle works on copies taken before the calls.
    cut = case.get("cut")
    if cut is not None and n > cut and not fails and levels:
        X = gen.layout(W.copy(), case.get("order"))
        X0 = W.copy()
        kk = levels[len(levels) // 2]
        ctx.call(fn, X, levels[-1])
        k1 = levels[0]
        o = ctx.call(fn, X, k1)
        if o.ok:
            want1 = _restrict(X0, cores[k1]) if k1 > 0 else X0
            if not np.array_equal(np.asarray(o.value[0], dtype=float), want1):
                fails.append(Failure("%s:wrong-core-of-an-array-used-in-an-earlier-call" % fn.__name__,
                                     "k=%s after a call with k=%s on the same array object" % (k1, levels[-1]), case))
        ctx.call(fn, X, kk)
        if kind in ("bu", "bd"):
            ctx.call(bct.kcoreness_centrality_bu if kind == "bu" else bct.kcoreness_centrality_bd, X)
        X[cut, :] = 0
        X[:, cut] = 0
        X0[cut, :] = 0
        X0[:, cut] = 0
        M2 = oc.contribution_matrix(X0, kind)
        core2 = _core(M2, kk, n)
        o = ctx.call(fn, X, kk)
        if o.ok and not fails:
            want2 = _restrict(X0, core2) if kk > 0 else X0
            if not np.array_equal(np.asarray(o.value[0], dtype=float), want2):
                fails.append(Failure("%s:stale-answer-after-in-place-edit" % fn.__name__, "k=%s, node %d cut off in place" % (kk, cut), case))

    if kind in ("bu", "bd") and case.get("coreness", True):
        f = bct.kcoreness_centrality_bu if kind == "bu" else bct.kcoreness_centrality_bd
        r = run(f, gen.layout(W.astype(dt), case.get("order")))
        if r is not None:
            try:
                cness, kn = r
                cness = np.asarray(cness, dtype=float)
                kn = np.asarray(kn, dtype=float)
            except Exception:
                fails.append(Failure("%s:bad-return" % f.__name__, repr(r)[:200], case))
                return fails
            kmax = int(deg0.max()) if n else 0
            want = np.zeros(n)
            sizes = {}
            for k in range(1, kmax + 1):
                c = cores.get(k)
                if c is None:
                    c = _core(M, k, n)
                sizes[k] = len(c)
                for v in c:
                    want[v] = k
            if cness.shape != (n,) or not np.array_equal(cness, want):
                v = int(np.argmax(cness != want)) if cness.shape == (n,) else -1
                fails.append(Failure("%s:coreness-not-largest-k" % f.__name__,
                                     "node %d: reported %r, largest k whose core contains it is %r" % (v, cness[v] if v >= 0 else cness, want[v] if v >= 0 else want),
                                     case, {"true_coreness_max": float(want.max()), "n": n, "node_true": float(want[v]) if v >= 0 else None,
                                            "node_reported": float(cness[v]) if v >= 0 else None}))
            for k in range(1, min(len(kn), kmax + 2)):
                if kn[k] != sizes.get(k, 0):
                    fails.append(Failure("%s:core-size-list-wrong" % f.__name__, "kn[%d]=%r, |core(%d)|=%d" % (k, kn[k], k, sizes.get(k, 0)), case))
                    break
    return fails


# ----------------------------------------------------------------------
def _levels_bin(M):
    kmax = int(M.sum(axis=1).max()) if len(M) else 0
    return list(range(0, kmax + 2))


def _levels_wu(M):
    vals = set()
    # strengths attained in the full graph and after removing each single node
    n = len(M)
    st_ = M.sum(axis=1)
    for v in st_:
        vals.add(float(v))
    for r in range(n):
        keep = [i for i in range(n) if i != r]
        for v in M[np.ix_(keep, keep)].sum(axis=1):
            vals.add(float(v))
    out = set()
    pos = [v for v in vals if v > 0]
    unit = (min(pos) / 8.0) if pos else 0.125      # a step well below the smallest attained strength (scale-aware)
    for v in vals:
        out |= {v, v + unit, max(0.0, v - unit)}
    return sorted(out)[:24]


@st.composite
def cases(draw, nmax, kinds):
    kind = draw(st.sampled_from(kinds))
    directed = kind == "bd"
    fam = draw(st.sampled_from(["er", "er", "tree", "coreperiph", "structured"]))
    if fam == "er":
        A = draw(gen.er_adj(draw(st.integers(3, nmax)), directed))
    elif fam == "tree":
        A = draw(gen.tree_chords_adj(draw(st.integers(3, nmax)), max_chords=4))
    elif fam == "coreperiph":
        c = draw(st.integers(3, max(3, nmax // 2)))
        p = draw(st.integers(1, max(1, nmax - c)))
        A = gen.block_diag(gen.complete_adj(c), np.zeros((p, p), dtype=bool))
        for v in range(c, c + p):   # chains hanging off the core: several peel rounds
            u = draw(st.integers(0, v - 1))
            A[u, v] = A[v, u] = True
    else:
        A, _ = draw(gen.structured_adj(3, nmax))
    n = len(A)
    if directed and fam != "er":
        pr = gen.pairs(n, False)
        keep = draw(st.lists(st.integers(0, 3), min_size=len(pr), max_size=len(pr)))
        A = A.copy()
        for (i, j), k in zip(pr, keep):
            if A[i, j]:
                if k == 1:
                    A[j, i] = False
                elif k == 2:
                    A[i, j] = False
    if draw(st.booleans()):
        A = gen.apply_perm(A, draw(gen.perm(n)))
    if kind == "wu":
        W = draw(gen.weights_for(A, "dyadic", False)) * draw(st.sampled_from(gen.POW2_SCALES))
        M = oc.contribution_matrix(W, "wu")
        lv = _levels_wu(M)
        pick = draw(st.lists(st.sampled_from(lv), min_size=1, max_size=4, unique=True)) if lv else [0.5]
        return {"kind": kind, "W": W, "levels": sorted(pick), "order": draw(st.sampled_from(gen.ORDERS)), "cut": draw(st.integers(0, 2))}
    W = A.astype(float)
    M = oc.contribution_matrix(W, kind)
    return {"kind": kind, "W": W, "levels": _levels_bin(M), "coreness": True, "order": draw(st.sampled_from(gen.ORDERS)), "cut": draw(st.integers(0, 2)),
            "dtype": draw(st.sampled_from(gen.BINARY_DTYPES))}


_SP = {}


def _space(tier):
    if tier not in _SP:
        specs = [(1, False), (2, False), (3, False), (4, False), (5, False), (2, True), (3, True)]
        if tier == "thorough":
            specs = [(1, False), (2, False), (3, False), (4, False), (5, False), (6, False), (2, True), (3, True), (4, True)]
        _SP[tier] = gen.GraphSpace(specs)
    return _SP[tier]


def _exh(tier, lo, hi):
    for n, d, A, k in _space(tier).range(lo, hi):
        kind = "bd" if d else "bu"
        W = A.astype(float)
        yield {"kind": kind, "W": W, "levels": _levels_bin(oc.contribution_matrix(W, kind)), "coreness": True,
               "dtype": gen.BINARY_DTYPES[k % len(gen.BINARY_DTYPES)], "order": gen.ORDERS[k % len(gen.ORDERS)]}


def units(tier):
    return [
        Unit("exhaustive-binary-all-k", check, count=lambda t: _space(t).total, cases=_exh, shards=(16, 64),
             space=_space(tier).describe() + " x every k in 0..maxdeg+1, subset-enumeration oracle"),
        Unit("random-binary", check, strategy=lambda: cases(12, ["bu", "bd"]), examples=(2000, 80000), shards=(8, 16)),
        Unit("random-binary-n<=25", check, strategy=lambda: cases(25, ["bu", "bd"]), examples=(500, 32000), shards=(8, 16)),
        Unit("random-score", check, strategy=lambda: cases(10, ["wu"]), examples=(2400, 80000), shards=(8, 16)),
        Unit("random-n<=45", check, strategy=lambda: cases(45, ["bu", "bd", "wu"]), examples=(80, 1600), shards=(8, 16)),
    ]
