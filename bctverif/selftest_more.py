"""More oracle self-validation: modularity, clustering and core oracles against hand-computed values / brute-force twins."""
import itertools

import numpy as np

from . import gen
from .oracles import clustering as oc, cores as ok, modularity as om


def _fail(msg):
    import sys
    print("SELFTEST FAILED: " + msg)
    sys.exit(2)


def test_modularity_oracle():
    """two disjoint triangles: Q = 1/2 for the natural split, 0 for one block; two 4-cliques joined by one edge;
    q_newman against an explicit per-module formula sum_c [e_cc/m2 - gamma (d_c/m2)^2] on random graphs."""
    T = gen.complete_adj(3).astype(float)
    W = gen.block_diag(T, T)
    if abs(om.q_newman(W, [1, 1, 1, 2, 2, 2]) - 0.5) > 1e-12 or abs(om.q_newman(W, [1] * 6)) > 1e-12:
        _fail("q_newman on two triangles")
    K = gen.complete_adj(4).astype(float)
    W = gen.block_diag(K, K)
    W[3, 4] = W[4, 3] = 1
    m2 = W.sum()
    want = 2 * (12 / m2 - (13 / m2) ** 2)
    if abs(om.q_newman(W, [1, 1, 1, 1, 2, 2, 2, 2]) - want) > 1e-12:
        _fail("q_newman on two 4-cliques")
    rs = np.random.RandomState(5)
    k = 0
    for _ in range(200):
        n = rs.randint(3, 9)
        W = (rs.rand(n, n) < 0.5) * rs.randint(1, 9, size=(n, n)) / 8.0
        np.fill_diagonal(W, 0)
        if W.sum() == 0:
            continue
        ci = rs.randint(1, 4, size=n)
        g = [0.5, 1.0, 1.5][rs.randint(3)]
        s = W.sum()
        want = 0.0
        for c in np.unique(ci):
            idx = ci == c
            want += W[np.ix_(idx, idx)].sum() / s - g * (W[idx, :].sum() / s) * (W[:, idx].sum() / s)
        if abs(om.q_newman(W, ci, g) - want) > 1e-12:
            _fail("q_newman vs per-module formula")
        # signed: with no negative weights every signed variant except 'neg' equals Newman's Q on a symmetric matrix
        S = (W + W.T) / 2
        for qt in ("sta", "smp", "gja", "pos"):
            if abs(om.q_signed(S, ci, g, qt) - om.q_newman(S, ci, g)) > 1e-12:
                _fail("q_signed(%s) on non-negative input" % qt)
        # sign flip: Q_neg(W) = -Q_pos(-W)
        if abs(om.q_signed(-S, ci, g, "neg") + om.q_newman(S, ci, g)) > 1e-12:
            _fail("q_signed(neg) on negated input")
        k += 1
    return k + 3


def test_clustering_oracle():
    """hand-counted triangles: K3 -> 1, K4 -> 1, C4 -> 0, star -> 0, triangle with a tail; transitivity K4 = 1;
    directed terms on a symmetric 0/1 matrix equal the undirected ones."""
    def c_und(A):
        num, den = oc.und_terms(A.astype(float), False)
        return oc.coef(num, den), oc.transitivity(num, den)
    if not np.allclose(c_und(gen.complete_adj(3))[0], 1) or not np.allclose(c_und(gen.complete_adj(4))[0], 1):
        _fail("clustering K3/K4")
    if np.any(c_und(gen.ring_adj(4))[0] != 0) or np.any(c_und(gen.star_adj(5))[0] != 0):
        _fail("clustering C4/star")
    A = gen.complete_adj(3)
    A = gen.block_diag(A, np.zeros((1, 1), dtype=bool))
    A[2, 3] = A[3, 2] = True
    c, t = c_und(A)
    if not np.allclose(c, [1, 1, 1 / 3, 0]) or abs(t - 3 / 5) > 1e-12:
        _fail("clustering triangle+tail")
    k = 0
    for n in (3, 4, 5):
        for idx in range(gen.n_graphs(n, False)):
            A = gen.graph_from_index(n, idx, False).astype(float)
            nu, du = oc.und_terms(A, False)
            nd, dd = oc.dir_terms(A, False)
            if not np.allclose(oc.coef(nu, du), oc.coef(nd, dd)):
                _fail("directed vs undirected terms on symmetric input")
            k += 1
    return k + 5


def test_core_oracle():
    """subset-enumeration core == one-at-a-time peel, all graphs n<=5 / digraphs n<=3, every k"""
    k = 0
    for n, d in [(3, False), (4, False), (5, False), (3, True)]:
        for idx in range(gen.n_graphs(n, d)):
            A = gen.graph_from_index(n, idx, d).astype(float)
            M = ok.contribution_matrix(A, "bd" if d else "bu")
            for kk in range(0, int(M.sum(axis=1).max()) + 2 if n else 1):
                if ok.core_by_subsets(M, kk) != ok.core_by_peel(M, kk) and kk > 0:
                    _fail("core oracles disagree")
                k += 1
    return k


TESTS = [test_modularity_oracle, test_clustering_oracle, test_core_oracle]
