"""Known-findings file: loader and matcher.

known_findings.json is committed and never written at run time. A generated
failure is attributed to a listed finding only if (a) its bucket key equals
the entry's key and (b) the entry's discriminating predicate (a function in
the property module, looked up by name) returns True for that failure.
Entries with status 'fixed' match nothing."""
import json
import os

HERE = os.path.dirname(os.path.dirname(os.path.abspath(__file__)))
PATH = os.path.join(HERE, "known_findings.json")


def load_all():
    with open(PATH) as fh:
        return json.load(fh)["findings"]


class Matcher:
    def __init__(self, prop_id, predicates):
        self.entries = [e for e in load_all() if e["property"] == prop_id]
        self.known = [e for e in self.entries if e["status"] == "known"]
        self.fixed = [e for e in self.entries if e["status"] == "fixed"]
        self.predicates = predicates or {}
        for e in self.known:
            p = e.get("predicate")
            if p and p not in self.predicates:
                raise RuntimeError("known finding %s names unknown predicate %s" % (e["id"], p))

    def match(self, failure):
        for e in self.known:
            if e["key"] != failure.key:
                continue
            p = e.get("predicate")
            if not p:
                return e["id"]
            try:
                if self.predicates[p](failure):
                    return e["id"]
            except Exception:
                # a predicate that cannot decide does not attribute
                continue
        return None
