"""Deep, NaN-aware comparison of library results (arrays, tuples, lists, dicts, scalars)."""
import numpy as np


def _is_num(x):
    return isinstance(x, (int, float, complex, np.integer, np.floating, np.bool_, bool))


def deep_equal(a, b, rtol=0.0, atol=0.0, path="result"):
    """Returns None if equal (within tolerance), else a short description of the first difference."""
    if isinstance(a, (tuple, list)) and isinstance(b, (tuple, list)):
        if len(a) != len(b):
            return "%s: lengths %d vs %d" % (path, len(a), len(b))
        for k, (x, y) in enumerate(zip(a, b)):
            d = deep_equal(x, y, rtol, atol, "%s[%d]" % (path, k))
            if d:
                return d
        return None
    if isinstance(a, dict) and isinstance(b, dict):
        if set(a.keys()) != set(b.keys()):
            return "%s: dict keys differ" % path
        for k in a:
            d = deep_equal(a[k], b[k], rtol, atol, "%s[%r]" % (path, k))
            if d:
                return d
        return None
    if a is None or b is None:
        return None if (a is None and b is None) else "%s: %r vs %r" % (path, a, b)
    if isinstance(a, str) or isinstance(b, str):
        return None if a == b else "%s: %r vs %r" % (path, a, b)
    try:
        xa = np.asarray(a)
        xb = np.asarray(b)
    except Exception:
        return None if a == b else "%s: %r vs %r" % (path, a, b)
    if xa.dtype == object or xb.dtype == object:
        if xa.shape != xb.shape:
            return "%s: shapes %s vs %s" % (path, xa.shape, xb.shape)
        for k, (x, y) in enumerate(zip(xa.ravel().tolist(), xb.ravel().tolist())):
            d = deep_equal(x, y, rtol, atol, "%s{%d}" % (path, k))
            if d:
                return d
        return None
    if xa.shape != xb.shape:
        return "%s: shapes %s vs %s" % (path, xa.shape, xb.shape)
    if xa.dtype.kind in "US" or xb.dtype.kind in "US":
        return None if np.array_equal(xa, xb) else "%s: string arrays differ" % path
    xa = xa.astype(complex) if xa.dtype.kind == "c" or xb.dtype.kind == "c" else xa.astype(float)
    xb = xb.astype(xa.dtype)
    with np.errstate(invalid="ignore"):
        same = (xa == xb) | (np.isnan(xa) & np.isnan(xb))
        if rtol or atol:
            # tolerance applies to finite values only (inf vs finite must never be "close")
            fin = np.isfinite(xa) & np.isfinite(xb)
            close = np.zeros(xa.shape, dtype=bool)
            close[fin] = np.abs(xa[fin] - xb[fin]) <= atol + rtol * np.maximum(np.abs(xa[fin]), np.abs(xb[fin]))
            same = same | close
    if np.all(same):
        return None
    idx = tuple(int(i) for i in np.argwhere(~same)[0]) if xa.ndim else ()
    return "%s%s: %r vs %r" % (path, list(idx) if idx else "", xa[idx] if idx != () else xa.item(), xb[idx] if idx != () else xb.item())


def outcomes_equal(o1, o2, rtol=0.0, atol=0.0):
    """Compare two iso.Outcome objects: both ok -> deep_equal; both raise -> same exception type."""
    if o1.status == "timeout" or o2.status == "timeout":
        return None, "inconclusive"
    if o1.ok and o2.ok:
        return deep_equal(o1.value, o2.value, rtol, atol), "both_ok"
    if (not o1.ok) and (not o2.ok):
        if type(o1.exc) is type(o2.exc):
            return None, "both_raise"
        return "raised %s vs %s" % (o1.exc_name(), o2.exc_name()), "both_raise"
    a = "returned" if o1.ok else "raised %s(%s)" % (o1.exc_name(), str(o1.exc)[:80])
    b = "returned" if o2.ok else "raised %s(%s)" % (o2.exc_name(), str(o2.exc)[:80])
    return "one side %s, the other %s" % (a, b), "one_raises"
