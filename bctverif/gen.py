"""Shared generators: Hypothesis strategies built by construction (no
assume/filter on structural preconditions) and exhaustive enumerators.

All strategies return plain numpy arrays / python scalars; every random
choice is a Hypothesis draw (so cases shrink and replay), except the
explicitly named *_big variants which expand a drawn integer seed through
numpy's RandomState (deterministic function of drawn data; used only for
larger n where per-cell draws are too slow -- the stored case always carries
the final matrix, so replay does not depend on the generator)."""
import itertools

import numpy as np
from hypothesis import strategies as st

DYADIC = [1.0, 0.5, 0.25, 0.125, 0.75, 0.375, 0.625, 0.875]   # index 0 shrinks to weight 1
TIE = [1.0, 2.0, 3.0]
DENS = {"sparse": 2, "medium": 5, "dense": 8}


# ----------------------------------------------------------------------
# basic pieces
# ----------------------------------------------------------------------
def pairs(n, directed):
    if directed:
        return [(i, j) for i in range(n) for j in range(n) if i != j]
    return [(i, j) for i in range(n) for j in range(i + 1, n)]


@st.composite
def er_adj(draw, n, directed, dens=None):
    """Boolean adjacency, no self-loops; per-cell draws (0 shrinks to absent)."""
    if dens is None:
        dens = draw(st.sampled_from(["sparse", "medium", "dense"]))
    thr = 10 - DENS[dens]
    pr = pairs(n, directed)
    vals = draw(st.lists(st.integers(0, 9), min_size=len(pr), max_size=len(pr)))
    A = np.zeros((n, n), dtype=bool)
    for (i, j), v in zip(pr, vals):
        if v >= thr:
            A[i, j] = True
            if not directed:
                A[j, i] = True
    return A


@st.composite
def tree_adj(draw, n):
    """Random labelled tree (undirected) by random attachment."""
    A = np.zeros((n, n), dtype=bool)
    for v in range(1, n):
        u = draw(st.integers(0, v - 1))
        A[u, v] = A[v, u] = True
    return A


@st.composite
def tree_chords_adj(draw, n, max_chords=3):
    A = draw(tree_adj(n))
    k = draw(st.integers(0, max_chords))
    for _ in range(k):
        i = draw(st.integers(0, n - 1))
        j = draw(st.integers(0, n - 1))
        if i != j:
            A[i, j] = A[j, i] = True
    return A


def ring_adj(n, directed=False):
    A = np.zeros((n, n), dtype=bool)
    for i in range(n):
        A[i, (i + 1) % n] = True
        if not directed:
            A[(i + 1) % n, i] = True
    return A


def path_adj(n):
    A = np.zeros((n, n), dtype=bool)
    for i in range(n - 1):
        A[i, i + 1] = A[i + 1, i] = True
    return A


def star_adj(n):
    A = np.zeros((n, n), dtype=bool)
    A[0, 1:] = True
    A[1:, 0] = True
    return A


def complete_adj(n):
    A = np.ones((n, n), dtype=bool)
    np.fill_diagonal(A, False)
    return A


def bipartite_adj(a, b):
    n = a + b
    A = np.zeros((n, n), dtype=bool)
    A[:a, a:] = True
    A[a:, :a] = True
    return A


def barbell_adj(a, b):
    n = a + b
    A = np.zeros((n, n), dtype=bool)
    A[:a, :a] = True
    A[a:, a:] = True
    np.fill_diagonal(A, False)
    A[a - 1, a] = A[a, a - 1] = True
    return A


def block_diag(*mats):
    n = sum(m.shape[0] for m in mats)
    A = np.zeros((n, n), dtype=mats[0].dtype)
    o = 0
    for m in mats:
        k = m.shape[0]
        A[o:o + k, o:o + k] = m
        o += k
    return A


@st.composite
def dring_chords_adj(draw, n, max_chords=4):
    """Directed ring plus random chords: strongly connected by construction."""
    A = ring_adj(n, directed=True)
    k = draw(st.integers(0, max_chords))
    for _ in range(k):
        i = draw(st.integers(0, n - 1))
        j = draw(st.integers(0, n - 1))
        if i != j:
            A[i, j] = True
    return A


@st.composite
def structured_adj(draw, nmin, nmax):
    """Undirected structured families that stress tie-breaking and degenerate
    spectra. Returns (A, tag)."""
    fam = draw(st.sampled_from(["ring", "path", "star", "complete", "bipartite",
                                "barbell", "copies", "forest", "isolated"]))
    n = draw(st.integers(max(nmin, 3), max(nmax, 3)))
    if fam == "ring":
        A = ring_adj(n)
    elif fam == "path":
        A = path_adj(n)
    elif fam == "star":
        A = star_adj(n)
    elif fam == "complete":
        A = complete_adj(n)
    elif fam == "bipartite":
        a = draw(st.integers(1, n - 1))
        A = bipartite_adj(a, n - a)
    elif fam == "barbell":
        a = draw(st.integers(2, max(2, n - 2))) if n >= 4 else 2
        a = min(a, n - 1)
        A = barbell_adj(a, n - a)
    elif fam == "copies":
        m = max(2, n // 2)
        base = draw(st.sampled_from(["ring", "complete", "path", "er"]))
        if base == "ring" and m >= 3:
            B = ring_adj(m)
        elif base == "complete":
            B = complete_adj(m)
        elif base == "path":
            B = path_adj(m)
        else:
            B = draw(er_adj(m, False, "medium"))
        A = block_diag(B, B)
    elif fam == "forest":
        m1 = max(1, n // 2)
        A = block_diag(draw(tree_adj(m1)), draw(tree_adj(max(1, n - m1))))
    else:
        m = max(2, n - draw(st.integers(1, 2)))
        B = draw(er_adj(m, False, "medium"))
        A = block_diag(B, np.zeros((n - m, n - m), dtype=bool)) if n > m else B
    return A, fam


def apply_perm(A, p):
    p = np.asarray(p)
    return A[np.ix_(p, p)]


@st.composite
def perm(draw, n):
    return np.array(draw(st.permutations(list(range(n)))), dtype=int)


@st.composite
def weights_for(draw, A, kind, directed):
    """Weight matrix on the support A. kind: bin | int | dyadic | tie | float | signed | signedint"""
    n = A.shape[0]
    if kind == "bin":
        return A.astype(float)
    if kind == "int":
        return A.astype(np.int64)
    pr = [(i, j) for (i, j) in pairs(n, directed) if A[i, j]]
    m = len(pr)
    if kind == "dyadic":
        idx = draw(st.lists(st.integers(0, 7), min_size=m, max_size=m))
        vals = [DYADIC[k] for k in idx]
    elif kind == "tie":
        idx = draw(st.lists(st.integers(0, 2), min_size=m, max_size=m))
        vals = [TIE[k] for k in idx]
    elif kind == "float":
        vals = draw(st.lists(st.floats(min_value=0.01, max_value=1.0, allow_nan=False),
                             min_size=m, max_size=m))
    elif kind == "signed":
        idx = draw(st.lists(st.integers(0, 15), min_size=m, max_size=m))
        vals = [DYADIC[k % 8] * (1 if k < 8 else -1) for k in idx]
    else:
        raise ValueError(kind)
    W = np.zeros((n, n))
    for (i, j), v in zip(pr, vals):
        W[i, j] = v
        if not directed:
            W[j, i] = v
    return W


@st.composite
def partition(draw, n, kmin=1, kmax=None):
    """Label vector of length n with labels 1..k, surjective."""
    kmax = min(kmax or n, n)
    k = draw(st.integers(min(kmin, kmax), kmax))
    lab = list(range(1, k + 1)) + draw(st.lists(st.integers(1, k), min_size=n - k, max_size=n - k))
    p = draw(st.permutations(list(range(n))))
    ci = np.zeros(n, dtype=int)
    for pos, l in zip(p, lab):
        ci[pos] = l
    return ci


@st.composite
def relabelling(draw, k, force_reversing=False):
    """Injective map from labels 1..k to integers; returns list m with m[l-1] = new label."""
    kind = draw(st.sampled_from(["rev", "neg", "zero", "arb", "large-adjacent", "perm", "revarb", "around-zero", "frac", "narrow-extremes", "huge-adjacent"])) if not force_reversing \
        else draw(st.sampled_from(["rev", "revarb", "neg", "large-adjacent", "perm", "frac", "narrow-extremes", "huge-adjacent"]))
    if kind == "narrow-extremes":     # labels spread over the whole range of an 8-bit integer (callers may store them as int8: see narrow_labels)
        pool = [-128, 127, -100, 100, -127, 126, 0, -1, 1, 64, -64, 2, 3, 5, 90, -90]
        if k <= len(pool):
            return list(draw(st.permutations(pool)))[:k]
        kind = "arb"
    if kind == "huge-adjacent":       # 64-bit identifiers far above 2^53 that differ by one (indistinguishable after a cast to float)
        off = draw(st.sampled_from([2 ** 60, 2 ** 62, 2 ** 54, -2 ** 61]))
        return [off + v for v in draw(st.permutations(list(range(1, k + 1))))]
    if kind == "neg":                 # all labels negative (max label + 1 is below the number of modules)
        return list(draw(st.permutations(list(range(-k - draw(st.integers(0, 5)), 0))[:k])))
    if kind == "around-zero":         # -1, 0, 1, ...
        return list(draw(st.permutations(list(range(-1, k - 1)))))
    if kind == "large-adjacent":      # consecutive labels far from zero (relative spacing ~1e-6)
        off = draw(st.sampled_from([10 ** 5, 250000, 10 ** 6, 10 ** 7]))
        return [off + v for v in draw(st.permutations(list(range(1, k + 1))))]
    if kind == "frac":                # distinct non-integer labels sharing integer parts
        return [v / 4.0 for v in draw(st.permutations(list(range(1, k + 1))))]
    if kind == "perm":
        return list(draw(st.permutations(list(range(1, k + 1)))))
    if kind == "zero":
        return list(draw(st.permutations(list(range(0, k)))))
    if kind == "rev":
        return list(range(k, 0, -1))
    vals = draw(st.lists(st.integers(-50, 10 ** 6), min_size=k, max_size=k, unique=True))
    if kind == "revarb":
        return sorted(vals, reverse=True)
    return vals


def narrow_labels(lab):
    """the label vector in the narrowest signed integer type that holds it (as a caller who saves memory would store it)"""
    lab = np.asarray(lab)
    if lab.dtype.kind != "i" or lab.size == 0:
        return lab
    for dt in (np.int8, np.int16, np.int32):
        ii = np.iinfo(dt)
        if lab.min() >= ii.min and lab.max() <= ii.max:
            return lab.astype(dt)
    return lab


def seeds():
    return st.one_of(st.integers(0, 20), st.integers(0, 2 ** 32 - 1))


# ----------------------------------------------------------------------
# planted partition (community routines)
# ----------------------------------------------------------------------
@st.composite
def planted_adj(draw, nmin, nmax, directed):
    k = draw(st.integers(2, 5))
    sizes = draw(st.lists(st.integers(2, 4), min_size=k, max_size=k))
    while sum(sizes) > nmax and len(sizes) > 1:
        sizes.pop()
    n = sum(sizes)
    lab = np.repeat(np.arange(len(sizes)), sizes)
    pr = pairs(n, directed)
    vals = draw(st.lists(st.integers(0, 9), min_size=len(pr), max_size=len(pr)))
    A = np.zeros((n, n), dtype=bool)
    for (i, j), v in zip(pr, vals):
        thr = 2 if lab[i] == lab[j] else 8
        if v >= thr:
            A[i, j] = True
            if not directed:
                A[j, i] = True
    return A


# ----------------------------------------------------------------------
# exhaustive enumerators (labelled graphs)
# ----------------------------------------------------------------------
def n_graphs(n, directed):
    return 2 ** (n * (n - 1) if directed else n * (n - 1) // 2)


def graph_from_index(n, idx, directed):
    A = np.zeros((n, n), dtype=bool)
    for b, (i, j) in enumerate(pairs(n, directed)):
        if (idx >> b) & 1:
            A[i, j] = True
            if not directed:
                A[j, i] = True
    return A


class GraphSpace:
    """Concatenation of complete labelled-graph spaces, addressable by index."""

    def __init__(self, specs):
        # specs: list of (n, directed)
        self.specs = list(specs)
        self.sizes = [n_graphs(n, d) for n, d in self.specs]
        self.total = sum(self.sizes)

    def describe(self):
        return "all labelled " + ", ".join("%s n=%d (%d)" % ("digraphs" if d else "graphs", n, s)
                                            for (n, d), s in zip(self.specs, self.sizes))

    def at(self, k):
        for (n, d), s in zip(self.specs, self.sizes):
            if k < s:
                return n, d, graph_from_index(n, k, d), k
            k -= s
        raise IndexError

    def range(self, lo, hi):
        for k in range(lo, hi):
            yield self.at(k)


class WeightedSpace:
    """All matrices on n nodes whose off-diagonal cells (ordered pairs if directed, unordered otherwise) take a value in
    (0,) + values: a complete finite space addressable by index (mixed-radix)."""

    def __init__(self, specs, values):
        self.specs = list(specs)          # (n, directed)
        self.values = (0.0,) + tuple(float(v) for v in values)
        self.b = len(self.values)
        self.sizes = [self.b ** len(pairs(n, d)) for n, d in self.specs]
        self.total = sum(self.sizes)

    def describe(self):
        return "all matrices with cell values in %s: " % (list(self.values),) + ", ".join(
            "%s n=%d (%d)" % ("directed" if d else "symmetric", n, s) for (n, d), s in zip(self.specs, self.sizes))

    def at(self, k):
        for (n, d), s in zip(self.specs, self.sizes):
            if k < s:
                W = np.zeros((n, n))
                for (i, j) in pairs(n, d):
                    k, r = divmod(k, self.b)
                    W[i, j] = self.values[r]
                    if not d:
                        W[j, i] = self.values[r]
                return n, d, W
            k -= s
        raise IndexError

    def range(self, lo, hi):
        for k in range(lo, hi):
            yield self.at(k)


def layout(W, order):
    """memory layout of a case matrix: 'C' (default), 'F' (Fortran order, e.g. what np.load of a MATLAB export gives),
    'T' (transposed view of a C-ordered array), 'S' (non-contiguous slice of a larger array)"""
    W = np.asarray(W)
    if order in (None, "C"):
        return np.ascontiguousarray(W)
    if order == "F":
        return np.asfortranarray(W)
    if order == "T":
        return np.ascontiguousarray(W.T).T
    if order == "S":
        big = np.zeros(tuple(2 * k for k in W.shape), dtype=W.dtype)
        sl = tuple(slice(None, None, 2) for _ in W.shape)
        big[sl] = W
        return big[sl]
    raise ValueError(order)


# Hypothesis tends to produce minimal values for the draws that come late in an example: the FIRST entry of a choice list should
# therefore be an interesting one, not the trivial one (measured: with "C" first, non-C layouts almost only met maxswap=0)
ORDERS = ["F", "C", "T", "S", "C"]


# power-of-two scale factors: multiplying dyadic weights by them stays exact in binary floating point, squares and reciprocals stay
# finite, and anything that compares against an absolute tolerance (1e-8, machine epsilon) or forms W*W naively is exposed
POW2_SCALES = [1.0, 2.0 ** -60, 2.0 ** 40, 2.0 ** -400, 2.0 ** 400, 2.0 ** -30]
# storage types of 0/1 adjacency matrices met in practice
BINARY_DTYPES = ["float64", "uint8", "int64", "bool", "int8", "float32", "int32", "uint16"]
# lengths a hair apart (relative difference 2^-31 .. 2^-32, below 1e-9) together with links shorter than that difference
HAIR = [1.0, 1.0 + 2.0 ** -31, 2.0 ** -33, 1.0, 1.0 + 2.0 ** -32, 2.0 ** -34, 2.0, 2.0 ** -33]
# integer lengths of very different magnitude (all sums exact in float64): near-ties at large magnitude next to short links
MIXED_INT = [1.0, 300000.0, 2.0, 300002.0, 100000.0, 100001.0, 3.0, 1000000.0, 1000001.0]
