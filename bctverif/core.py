"""Core types: Failure, Ctx (per-unit accumulators), Unit, and the two unit
drivers (Hypothesis search, exhaustive enumeration)."""
import random
import time
import traceback
from collections import Counter

import numpy as np

from . import canon, iso


class Failure:
    def __init__(self, key, msg, case=None, info=None):
        self.key = key          # root-cause bucket "<function>:<predicate>"
        self.msg = msg
        self.case = case
        self.info = info or {}  # small extra data for KF predicates

    def to_dict(self):
        return {"key": self.key, "msg": self.msg, "case": canon.to_jsonable(self.case),
                "info": canon.to_jsonable(self.info)}


class Violation(Exception):
    def __init__(self, failure):
        super().__init__(failure.key + ": " + failure.msg)
        self.failure = failure


class HarnessError(Exception):
    pass


class Ctx:
    """Accumulators of one unit execution (one worker)."""

    MAX_SAMPLES = 4
    MAX_HASHES = 400000

    def __init__(self, unit_name):
        self.unit = unit_name
        self.evaluations = 0
        self.calls = 0
        self.nontrivial = set()
        self.classes = Counter()
        self.samples = []
        self.rejections = Counter()
        self.timeouts = Counter()
        self.crashes = Counter()
        self.kf_hits = Counter()
        self.hook_events = 0
        self.notes = Counter()
        self.deadline = None
        self.targets = {}

    # -- library calls ----------------------------------------------------
    def call(self, fn, *a, timeout=10.0, **k):
        self.calls += 1
        if sum(self.timeouts.values()) >= 3:
            # a hanging tree: keep the campaign bounded (timeouts are inconclusive anyway)
            timeout = min(timeout, 1.0)
        out = iso.call(fn, *a, timeout=timeout, **k)
        name = getattr(fn, "__name__", str(fn))
        if out.status == "timeout":
            self.timeouts[name] += 1
        elif out.status == "reject":
            self.rejections[name] += 1
        elif out.status == "crash":
            self.crashes["%s:%s" % (name, out.exc_name())] += 1
        return out

    # -- bookkeeping --------------------------------------------------------
    def label(self, name, n=1):
        self.classes[name] += n

    def target(self, value, label):
        """steer Hypothesis' targeted phase toward the interesting region (ignored by the other drivers)"""
        self.targets[label] = float(value)

    def mark_nontrivial(self, case, sample=True):
        h = canon.case_hash(case)
        new = h not in self.nontrivial
        if len(self.nontrivial) < self.MAX_HASHES:
            self.nontrivial.add(h)
        if new and sample and len(self.samples) < self.MAX_SAMPLES:
            self.samples.append(canon.to_jsonable(case))

    def result(self):
        return {
            "unit": self.unit,
            "evaluations": self.evaluations,
            "calls": self.calls,
            "nontrivial": self.nontrivial,
            "classes": self.classes,
            "samples": self.samples,
            "rejections": self.rejections,
            "timeouts": self.timeouts,
            "crashes": self.crashes,
            "kf_hits": self.kf_hits,
            "hook_events": self.hook_events,
            "notes": self.notes,
        }


def reset_global_state():
    np.random.seed(12345)
    random.seed(12345)


class Unit:
    """One independently schedulable piece of a property's search.

    kind 'hyp': strategy() -> Hypothesis strategy of cases (dicts); examples per tier.
    kind 'exh': count(tier) -> N; cases(tier, lo, hi) -> iterator of cases lo..hi-1.
    check(case, ctx) -> list[Failure]
    """

    def __init__(self, name, check, strategy=None, examples=(200, 2000),
                 count=None, cases=None, shards=(4, 16), space=None, weight=1.0):
        self.name = name
        self.check = check
        self.strategy = strategy
        self.examples = examples
        self.count = count
        self.cases = cases
        self.shards = shards
        self.space = space
        self.kind = "hyp" if strategy is not None else "exh"

    def n_examples(self, tier):
        return self.examples[0] if tier == "quick" else self.examples[1]

    def n_shards(self, tier):
        return self.shards[0] if tier == "quick" else self.shards[1]


def _seed_for(verif_seed, unit_name, shard, attempt=0):
    import hashlib
    s = "%d|%s|%d|%d" % (verif_seed, unit_name, shard, attempt)
    return int(hashlib.sha1(s.encode()).hexdigest()[:8], 16)


def _classify(failures, kf, ctx):
    """Split failures into known (counted, search continues) and new."""
    new = []
    for f in failures:
        kid = kf.match(f) if kf is not None else None
        if kid is not None:
            ctx.kf_hits[kid] += 1
        else:
            new.append(f)
    return new


WALL_BUDGET_S = {"quick": 600.0, "thorough": 5400.0}


def run_check(unit, case, ctx):
    if ctx.deadline is not None and time.time() > ctx.deadline:
        ctx.notes["skipped-after-wall-budget"] += 1
        return []
    reset_global_state()
    ctx.evaluations += 1
    try:
        fails = unit.check(case, ctx)
    except iso.CallTimeout:
        ctx.timeouts["<stray>"] += 1
        return []
    return fails or []


SHRINK_BUDGET_S = 25.0


class _ShrinkBudgetExhausted(BaseException):
    pass


def run_hyp_unit(unit, tier, verif_seed, shard, nshards, kf):
    from hypothesis import given, settings, seed, HealthCheck, Phase, Verbosity
    from hypothesis import target as hyp_target
    from hypothesis import errors as herr

    ctx = Ctx(unit.name)
    ctx.deadline = time.time() + WALL_BUDGET_S[tier]
    found = []          # list of Failure (shrunk), distinct keys
    muted = set()
    n_ex = max(1, unit.n_examples(tier) // nshards)
    if n_ex <= 8 and shard > 0:
        # Hypothesis always starts with the simplest example of the strategy: identical in every shard. Where a shard
        # only runs a handful of cases, that one is run on top (shard 0 keeps it within its count)
        n_ex += 1
    for attempt in range(5):
        state = {"target": None, "last": None, "t0": None, "others": set()}

        def body(case):
            if state["t0"] is not None and time.time() - state["t0"] > SHRINK_BUDGET_S and state["last"] is not None:
                # shrink budget exhausted: stop this run at once and keep the smallest failing example found so far
                # (a BaseException that Hypothesis does not treat as a test outcome, so it propagates out of the engine)
                raise _ShrinkBudgetExhausted()
            ctx.targets = {}
            fails = _classify(run_check(unit, case, ctx), kf, ctx)
            fails = [f for f in fails if f.key not in muted]
            if not fails:
                for lab, val in ctx.targets.items():
                    try:
                        hyp_target(val, label=lab)
                    except Exception:
                        pass
                return
            if state["target"] is None:
                state["target"] = fails[0].key
                state["t0"] = time.time()
            for f in fails:
                if f.key != state["target"]:
                    state["others"].add(f.key)
            mine = [f for f in fails if f.key == state["target"]]
            if mine:
                f = mine[0]
                if f.case is None:
                    f.case = case
                state["last"] = f
                raise Violation(f)

        test = given(unit.strategy())(body)
        test = settings(max_examples=n_ex, database=None, deadline=None,
                        derandomize=False, report_multiple_bugs=False,
                        verbosity=Verbosity.quiet,
                        phases=(Phase.generate, Phase.target, Phase.shrink),
                        suppress_health_check=list(HealthCheck))(test)
        test = seed(_seed_for(verif_seed, unit.name, shard, attempt))(test)
        try:
            test()
        except Violation:
            pass
        except _ShrinkBudgetExhausted:
            pass
        except (herr.Flaky, herr.FlakyFailure) if hasattr(herr, "FlakyFailure") else herr.Flaky:
            pass
        except herr.Unsatisfiable as e:
            raise HarnessError("unit %s: generator unsatisfiable: %s" % (unit.name, e))
        if state["last"] is not None:
            # Hypothesis stops at the first failure: mute this bucket and search again so that
            # a shallow defect does not hide whatever lies behind it
            found.append(state["last"])
            muted.add(state["target"])
        else:
            break
    res = ctx.result()
    res["failures"] = [f.to_dict() for f in found]
    return res


def run_exh_unit(unit, tier, verif_seed, shard, nshards, kf):
    ctx = Ctx(unit.name)
    ctx.deadline = time.time() + WALL_BUDGET_S[tier]
    total = unit.count(tier)
    lo = total * shard // nshards
    hi = total * (shard + 1) // nshards
    found = {}
    for case in unit.cases(tier, lo, hi):
        fails = _classify(run_check(unit, case, ctx), kf, ctx)
        for f in fails:
            if f.key not in found:
                if f.case is None:
                    f.case = case
                found[f.key] = f
    res = ctx.result()
    res["failures"] = [f.to_dict() for f in found.values()]
    res["exh_total"] = hi - lo
    return res


def run_unit(unit, tier, verif_seed, shard, nshards, kf):
    try:
        if unit.kind == "hyp":
            return run_hyp_unit(unit, tier, verif_seed, shard, nshards, kf)
        return run_exh_unit(unit, tier, verif_seed, shard, nshards, kf)
    except HarnessError:
        raise
    except Exception:
        raise HarnessError("unit %s shard %d: harness exception\n%s" % (unit.name, shard, traceback.format_exc()))
