"""Shared machinery for the community-detection properties C02 and C07:
strategies, execution with the per-move hook, and the two oracles' predicates."""
import numpy as np
from hypothesis import strategies as st

import bct

from . import gen
from .core import Failure
from .oracles import modularity as om

GAMMAS = [0.8, 1.0, 1.2, 0.5, 1.5]      # non-unit gamma first (a minimal draw should not hide the resolution parameter)
QTYPES = ["smp", "sta", "gja", "neg", "pos"]

# routine -> (input kind, objective family)
ROUTINES = {
    "community_louvain": None,
    "modularity_louvain_und": "und", "modularity_louvain_dir": "dir", "modularity_louvain_und_sign": "sign",
    "modularity_finetune_und": "und", "modularity_finetune_dir": "dir", "modularity_finetune_und_sign": "sign",
    "modularity_probtune_und_sign": "sign",
    "modularity_und": "und", "modularity_dir": "dir", "modularity_und_sign": "sign",
}
OPTIMISERS = ["community_louvain", "modularity_louvain_und", "modularity_louvain_dir", "modularity_louvain_und_sign",
              "modularity_finetune_und", "modularity_finetune_dir", "modularity_finetune_und_sign"]
TOL = 1e-9
# routines that accept a logical adjacency matrix (the others reject it with a TypeError from NumPy's boolean arithmetic)
BOOL_OK = {"community_louvain", "modularity_finetune_und", "modularity_finetune_dir", "modularity_und", "modularity_dir",
           "modularity_louvain_und", "modularity_louvain_dir", "modularity_louvain_und_sign"}


class MoveRecorder:
    def __init__(self, keep=300):
        self.events = []
        self.keep = keep
        self.count = 0

    def __enter__(self):
        import bct.utils.miscellaneous_utilities as mu
        self._mu = mu
        self._old = getattr(mu, "_verif_sink", None)
        mu._verif_sink = self._sink
        return self

    def __exit__(self, *a):
        self._mu._verif_sink = self._old
        return False

    def _sink(self, kind, p):
        if kind != "move":
            return
        self.count += 1
        if len(self.events) < self.keep:
            nm = p.get("nodemap")
            self.events.append({"fn": p["fn"], "node": int(p["node"]), "src": int(p["src"]), "dst": int(p["dst"]),
                                "gain": float(p["gain"]), "labels": np.array(p["labels"], copy=True),
                                "nodemap": None if nm is None else np.array(nm, copy=True)})


# ----------------------------------------------------------------------
# strategies
# ----------------------------------------------------------------------
@st.composite
def matrix(draw, kind, nmax):
    """kind: und | dir | sign | bin-und | bin-dir"""
    directed = kind in ("dir", "bin-dir")
    fam = draw(st.sampled_from(["planted", "planted", "er", "hier", "uniform-complete"]))
    if fam == "uniform-complete":
        # no community structure at all: every pair connected with the same weight (for gamma > 1 one module is worse than singletons)
        A = gen.complete_adj(draw(st.integers(3, nmax)))
    elif fam == "planted":
        A = draw(gen.planted_adj(3, nmax, directed))
    elif fam == "er":
        A = draw(gen.er_adj(draw(st.integers(3, nmax)), directed))
    else:
        # 4-6 tight pairs/triples joined sparsely: produces several hierarchy levels
        k = draw(st.integers(3, max(3, nmax // 2)))
        blocks = [gen.complete_adj(draw(st.integers(2, 3))) for _ in range(k)]
        A = gen.block_diag(*blocks)
        n = len(A)
        for _ in range(draw(st.integers(k - 1, 2 * k))):
            a, b = draw(st.integers(0, n - 1)), draw(st.integers(0, n - 1))
            if a != b:
                A[a, b] = True
                if not directed:
                    A[b, a] = True
    n = len(A)
    A = A.copy()
    # positive total weight by construction
    A[0, 1] = True
    if not directed:
        A[1, 0] = True
    if fam != "uniform-complete" and draw(st.integers(0, 3)) == 0 and n > 3:      # isolated node
        v = draw(st.integers(2, n - 1))
        A[v, :] = False
        A[:, v] = False
    if kind.startswith("bin"):
        W = A.astype(float)
    elif kind == "sign":
        W = draw(gen.weights_for(A, "signed", False))
        W[0, 1] = W[1, 0] = 1.0
        mode = draw(st.sampled_from(["mixed", "mixed", "nonneg"]))
        if mode == "nonneg":
            W = np.abs(W)
        # domain of the property: positive total weight (positive part outweighs negative part)
        if W.sum() <= 0:
            W = np.where(W < 0, W / 8.0, W)
            if W.sum() <= 0:
                W = np.abs(W)
    elif fam == "uniform-complete":
        W = A.astype(float) * draw(st.sampled_from([1.0, 0.5, 3.0]))
    else:
        W = draw(gen.weights_for(A, draw(st.sampled_from(["bin", "dyadic", "dyadic"])), directed))
    if kind == "sign" and draw(st.integers(0, 4)) == 0:
        # a nonzero but very small total of negative weight (e.g. a few links of about -1e-10): still negative weights
        neg = W < 0
        if neg.any():
            W = np.where(neg, W * 2.0 ** -33, W)
    if not kind.startswith("bin"):
        # the whole matrix in another unit: quality values are scale-invariant
        W = W * draw(st.sampled_from(gen.POW2_SCALES))
    if draw(st.integers(0, 3)) == 0:                # self-loops (the gain formulas contain W[u,u])
        d = draw(st.lists(st.integers(0, 4), min_size=n, max_size=n))
        for i, v in enumerate(d):
            W[i, i] = (v / 4.0) * (np.max(np.abs(W)) or 1.0) if not kind.startswith("bin") else float(v > 2)
    if draw(st.booleans()):
        W = gen.apply_perm(W, draw(gen.perm(n)))
    return W


@st.composite
def start_partition(draw, n):
    ci = draw(gen.partition(n))
    k = int(ci.max())
    m = draw(gen.relabelling(k))
    out = np.array([m[l - 1] for l in ci])
    return out if out.dtype.kind == "f" else out.astype(int)


@st.composite
def cases(draw, name, nmax, give_start=None):
    kind = ROUTINES[name]
    case = {"fn": name, "seed": draw(gen.seeds()), "gamma": draw(st.sampled_from(GAMMAS))}
    if name == "community_louvain":
        obj = draw(st.sampled_from(["modularity", "modularity", "negative_sym", "negative_asym", "potts"]))
        case["objective"] = obj
        if obj == "modularity":
            kind = draw(st.sampled_from(["und", "dir"]))
        elif obj == "potts":
            kind = draw(st.sampled_from(["bin-und", "bin-dir"]))
        else:
            kind = draw(st.sampled_from(["sign", "sign-dir"]))      # the docstring accepts directed input for every objective
    W = draw(matrix("sign" if kind == "sign-dir" else kind, nmax))
    if kind == "sign-dir":
        # make the signed matrix genuinely directed: drop one direction of some connections
        n_ = len(W)
        drop = draw(st.lists(st.integers(0, 2), min_size=n_ * (n_ - 1) // 2, max_size=n_ * (n_ - 1) // 2))
        for (i, j), dd in zip(gen.pairs(n_, False), drop):
            if dd == 1:
                W[i, j] = 0
            elif dd == 2:
                W[j, i] = 0
        if W.sum() <= 0 or not np.any(W > 0):
            W[0, 1] = abs(W).max() * 4 or 1.0
        kind = "sign"
    if np.all((W == 0) | (W == 1)) and draw(st.integers(0, 2)) == 0:
        W = W.astype(draw(st.sampled_from(["uint8", "int64", "int32", "uint16", "int8"] + (["bool", "bool"] if name in BOOL_OK and not str(case.get("objective", "")).startswith("negative") else []))))          # 0/1 matrices are often stored as integers / logicals
    case["W"] = W
    case["order"] = draw(st.sampled_from(gen.ORDERS))
    n = len(W)
    if kind == "sign":
        case["qtype"] = draw(st.sampled_from(QTYPES))
    if name in ("modularity_louvain_und", "modularity_louvain_dir"):
        case["hierarchy"] = draw(st.booleans())
    accepts_start = name in ("community_louvain", "modularity_finetune_und", "modularity_finetune_dir",
                             "modularity_finetune_und_sign", "modularity_probtune_und_sign")
    if name in ("modularity_und", "modularity_dir"):
        case["ci0"] = draw(start_partition(n)) if draw(st.booleans()) else None
    elif name == "modularity_und_sign":
        case["ci0"] = draw(start_partition(n))
        case["gamma"] = 1.0
    elif accepts_start:
        want = draw(st.booleans()) if give_start is None else give_start
        case["ci0"] = draw(start_partition(n)) if want else None
    else:
        case["ci0"] = None
    if name == "modularity_probtune_und_sign":
        case["p"] = draw(st.sampled_from([0.0, 0.2, 0.45, 1.0]))
    if case.get("ci0") is not None:
        case["ci_as"] = draw(st.sampled_from(["list", "array", "array", "tuple"]))       # a partition handed over as a plain Python sequence
    return case


# ----------------------------------------------------------------------
# execution
# ----------------------------------------------------------------------
def call(case, ctx, ci0="case"):
    name = case["fn"]
    fn = getattr(bct, name)
    W = np.array(case["W"])
    if W.dtype.kind not in "iub":
        W = W.astype(float)
    W = gen.layout(W, case.get("order"))
    g = case["gamma"]
    seed = case["seed"]
    start = case.get("ci0") if isinstance(ci0, str) else ci0
    start = None if start is None else np.array(start)
    if start is not None and case.get("ci_as") in ("list", "tuple"):
        class _Seq(list):          # a plain Python sequence that still answers .copy() like the arrays used below
            def copy(self_):
                return (tuple if case["ci_as"] == "tuple" else list)(self_)
        start = _Seq(start.tolist())
    with MoveRecorder() as rec:
        if name == "community_louvain":
            o = ctx.call(fn, gen.layout(W.copy(), case.get("order")), gamma=g, ci=(None if start is None else start.copy()), B=case["objective"], seed=seed)
        elif name in ("modularity_louvain_und", "modularity_louvain_dir"):
            o = ctx.call(fn, gen.layout(W.copy(), case.get("order")), gamma=g, hierarchy=case.get("hierarchy", False), seed=seed)
        elif name == "modularity_louvain_und_sign":
            o = ctx.call(fn, gen.layout(W.copy(), case.get("order")), gamma=g, qtype=case["qtype"], seed=seed)
        elif name in ("modularity_finetune_und", "modularity_finetune_dir"):
            o = ctx.call(fn, gen.layout(W.copy(), case.get("order")), ci=(None if start is None else start.copy()), gamma=g, seed=seed)
        elif name == "modularity_finetune_und_sign":
            o = ctx.call(fn, gen.layout(W.copy(), case.get("order")), qtype=case["qtype"], gamma=g, ci=(None if start is None else start.copy()), seed=seed)
        elif name == "modularity_probtune_und_sign":
            o = ctx.call(fn, gen.layout(W.copy(), case.get("order")), qtype=case["qtype"], gamma=g, ci=(None if start is None else start.copy()), p=case["p"], seed=seed)
        elif name in ("modularity_und", "modularity_dir"):
            o = ctx.call(fn, gen.layout(W.copy(), case.get("order")), gamma=g, kci=(None if start is None else start.copy()))
        elif name == "modularity_und_sign":
            o = ctx.call(fn, gen.layout(W.copy(), case.get("order")), start.copy(), qtype=case["qtype"])
        else:
            raise ValueError(name)
    return o, rec


def q_ref(case, ci):
    name = case["fn"]
    W = np.array(case["W"], dtype=float)
    g = case["gamma"]
    if name == "community_louvain":
        if case["objective"] == "potts":
            return None
        return om.q_objective(W, ci, g, case["objective"])
    if ROUTINES[name] == "sign":
        return om.q_signed(W, ci, (1.0 if name == "modularity_und_sign" else g), case["qtype"])
    return om.q_newman(W, ci, g)


def valid_labels(ci, n):
    ci = np.asarray(ci)
    if ci.shape != (n,):
        return "label vector has shape %s for %d nodes" % (ci.shape, n)
    if not np.all(ci == np.round(ci)):
        return "labels not integer-valued: %s" % ci
    labs = sorted(set(int(x) for x in ci.tolist()))
    if labs != list(range(1, len(labs) + 1)):
        return "labels used %s are not exactly 1..%d" % (labs, len(labs))
    return None


def gain_scale(case):
    """claimed gain = (Q_after - Q_before) * scale"""
    name = case["fn"]
    W = np.array(case["W"], dtype=float)
    if name == "community_louvain":
        return 0.5          # every built-in objective matrix is normalised by the total weight (the modularity one since the fix for KF-C07-10)
    if ROUTINES[name] == "sign":
        return 0.5
    return W.sum() / 2.0


def full_labels(ev):
    """node labelling after the move carried by a hook event"""
    lab = np.asarray(ev["labels"])
    nm = ev["nodemap"]
    if nm is None:
        return lab.copy()
    nm = np.asarray(nm).astype(int)
    return lab[nm - 1]


def labels_before(ev):
    lab = np.asarray(ev["labels"]).copy()
    lab[ev["node"]] = ev["src"] + 1
    nm = ev["nodemap"]
    if nm is None:
        return lab
    return lab[np.asarray(nm).astype(int) - 1]
