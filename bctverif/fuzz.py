"""Coverage-guided campaign for one unit: libFuzzer (atheris) drives the unit's Hypothesis strategy through
`hypothesis.fuzz_one_input`, with branch coverage collected from the instrumented `bct` package, and the property's
own oracle (unit.check) inside the target -- a target that only waited for crashes would test memory safety, not the property.

python -m bctverif.fuzz <Cnn> <unit-name> --runs N --seed S --out DIR

Writes DIR/stats.json periodically (atheris never runs atexit handlers) and DIR/failure.json when the oracle reports
a failure that is not a listed known finding; the process then stops (libFuzzer treats the exception as a crash)."""
import argparse
import importlib
import json
import os
import sys
import time

VERIF = os.path.dirname(os.path.dirname(os.path.abspath(__file__)))


def main():
    ap = argparse.ArgumentParser()
    ap.add_argument("prop")
    ap.add_argument("unit")
    ap.add_argument("--runs", type=int, default=20000)
    ap.add_argument("--seed", type=int, default=1)
    ap.add_argument("--out", required=True)
    ap.add_argument("--max-time", type=int, default=600)
    a = ap.parse_args()
    repo = os.path.realpath(os.environ.get("VERIF_REPO", "/repo"))
    sys.path.insert(0, repo)
    deps = os.path.join(VERIF, ".deps")
    if os.path.isdir(deps):
        sys.path.append(deps)
    import warnings
    warnings.simplefilter("ignore")
    import atheris
    with atheris.instrument_imports(include=["bct"]):
        import bct  # noqa: F401  (instrumented: coverage feedback comes from the library under test)
    if not os.path.realpath(bct.__file__).startswith(repo + os.sep):
        print("HARNESS: bct imported from the wrong place", file=sys.stderr)
        sys.exit(2)
    from hypothesis import given, settings, HealthCheck
    from . import canon, core, kf as kfmod
    mod = importlib.import_module("bctverif.props." + a.prop.lower())
    unit = [u for u in mod.units("thorough") if u.name == a.unit][0]
    matcher = kfmod.Matcher(a.prop.upper(), getattr(mod, "KF_PREDICATES", {}))
    ctx = core.Ctx(unit.name)
    os.makedirs(a.out, exist_ok=True)
    state = {"last_flush": 0, "t0": time.time()}

    def flush(final=False):
        st = {"evaluations": ctx.evaluations, "calls": ctx.calls, "nontrivial": sorted(ctx.nontrivial), "classes": dict(ctx.classes),
              "timeouts": dict(ctx.timeouts), "kf_hits": dict(ctx.kf_hits), "samples": ctx.samples[:2], "wall_s": time.time() - state["t0"],
              "final": final}
        tmp = os.path.join(a.out, "stats.json.tmp")
        with open(tmp, "w") as fh:
            json.dump(st, fh)
        os.replace(tmp, os.path.join(a.out, "stats.json"))

    @settings(database=None, deadline=None, suppress_health_check=list(HealthCheck))
    @given(unit.strategy())
    def target(case):
        fails = core._classify(core.run_check(unit, case, ctx), matcher, ctx)
        if ctx.evaluations - state["last_flush"] >= 200:
            state["last_flush"] = ctx.evaluations
            flush()
        if fails:
            f = fails[0]
            if f.case is None:
                f.case = case
            rec = {"property": a.prop.upper(), "unit": unit.name, "key": f.key, "msg": f.msg, "case": canon.to_jsonable(f.case),
                   "info": canon.to_jsonable(f.info)}
            with open(os.path.join(a.out, "failure.json"), "w") as fh:
                json.dump(rec, fh, indent=1, sort_keys=True)
            flush(final=True)
            raise core.Violation(f)

    corpus = os.path.join(a.out, "corpus")
    os.makedirs(corpus, exist_ok=True)
    flush()
    atheris.Setup([sys.argv[0], "-runs=%d" % a.runs, "-seed=%d" % (a.seed or 1), "-max_len=8192", "-max_total_time=%d" % a.max_time,
                   "-print_final_stats=0", "-verbosity=0", "-artifact_prefix=" + os.path.join(a.out, ""), corpus], target.hypothesis.fuzz_one_input)
    atheris.Fuzz()


if __name__ == "__main__":
    main()
