"""Independent graph oracles written from the definitions. No code shared with bct."""
from collections import deque
from fractions import Fraction

import numpy as np

INF = float("inf")


# ----------------------------------------------------------------------
# reachability / components
# ----------------------------------------------------------------------
def reach_from(A, s):
    """Set of nodes reachable from s by directed paths of length >= 0 (support of A, off-diagonal)."""
    n = len(A)
    seen = [False] * n
    seen[s] = True
    dq = deque([s])
    while dq:
        u = dq.popleft()
        row = A[u]
        for v in range(n):
            if v != u and row[v] != 0 and not seen[v]:
                seen[v] = True
                dq.append(v)
    return seen


def components_und(A):
    """Labels 0..m-1 of connected components of the undirected support (A or A.T nonzero off-diagonal)."""
    n = len(A)
    S = (np.asarray(A) != 0)
    S = S | S.T
    lab = [-1] * n
    m = 0
    for s in range(n):
        if lab[s] >= 0:
            continue
        lab[s] = m
        dq = deque([s])
        while dq:
            u = dq.popleft()
            for v in range(n):
                if v != u and S[u, v] and lab[v] < 0:
                    lab[v] = m
                    dq.append(v)
        m += 1
    return lab, m


def is_connected_und(A):
    return components_und(A)[1] <= 1


def is_strongly_connected(A):
    A = np.asarray(A) != 0
    n = len(A)
    if n == 0:
        return True
    return all(reach_from(A, 0)) and all(reach_from(A.T, 0))


# ----------------------------------------------------------------------
# BFS distances (binary)
# ----------------------------------------------------------------------
def bfs_dist(A):
    """Hop distances; inf if unreachable; diagonal 0."""
    A = np.asarray(A) != 0
    n = len(A)
    D = np.full((n, n), INF)
    for s in range(n):
        D[s, s] = 0
        dq = deque([s])
        while dq:
            u = dq.popleft()
            for v in range(n):
                if v != u and A[u, v] and D[s, v] == INF:
                    D[s, v] = D[s, u] + 1
                    dq.append(v)
    return D


# ----------------------------------------------------------------------
# exact weighted shortest paths
# ----------------------------------------------------------------------
def to_fraction_lengths(L):
    """Matrix of Fractions (None = no edge) from a float length matrix whose
    entries are exactly representable (integers / dyadic)."""
    n = len(L)
    return [[(Fraction(float(L[i][j])) if (i != j and L[i][j] != 0) else None) for j in range(n)] for i in range(n)]


def exact_sp(Lf, combine=None, better=None, unit=0):
    """All-pairs exact shortest paths on a matrix of exact numbers (None = no edge).

    Default semiring (min, +) with unit 0: entries are lengths >= 0.
    With combine=mul, better=gt, unit=1 it is the (max, x) semiring used for
    the 'log' transform: entries are weights in (0,1], the best path has the
    largest product (= smallest sum of -log w), decided exactly.
    Returns D with D[s][t] = best value or None (unreachable); D[s][s] = unit."""
    if combine is None:
        combine = lambda a, b: a + b
    if better is None:
        better = lambda a, b: a < b
    n = len(Lf)
    D = [[None] * n for _ in range(n)]
    for i in range(n):
        for j in range(n):
            if i != j and Lf[i][j] is not None:
                D[i][j] = Lf[i][j]
        D[i][i] = unit
    for k in range(n):
        Dk = D[k]
        for i in range(n):
            dik = D[i][k]
            if dik is None:
                continue
            Di = D[i]
            for j in range(n):
                dkj = Dk[j]
                if dkj is None:
                    continue
                c = combine(dik, dkj)
                if Di[j] is None or better(c, Di[j]):
                    Di[j] = c
    return D


def hop_sets(Lf, D, combine=None):
    """hops[s][t] = set of h in 1..n-1 such that some s->t walk with h edges has
    total value exactly D[s][t] (walks along tight edges; with positive lengths
    these are exactly the shortest paths)."""
    if combine is None:
        combine = lambda a, b: a + b
    n = len(Lf)
    res = [[set() for _ in range(n)] for _ in range(n)]
    for s in range(n):
        cur = {s}
        for h in range(1, n):
            nxt = set()
            for u in cur:
                du = D[s][u]
                for v in range(n):
                    l = Lf[u][v]
                    if l is None or u == v:
                        continue
                    if D[s][v] is not None and combine(du, l) == D[s][v]:
                        nxt.add(v)
            for v in nxt:
                if v != s:
                    res[s][v].add(h)
            cur = nxt
            if not cur:
                break
    return res


def hop_min_len(L, s, hmax=None):
    """best[h][v] = minimum total length of a walk with exactly h edges from s
    to v (h = 0..hmax-1, default hmax = n), inf if none. L: float matrix of lengths, inf/0 = no edge
    handled by caller passing np.inf for absent edges. Float DP used where only
    a tolerance comparison is meaningful."""
    n = len(L)
    hmax = hmax or n
    best = np.full((hmax, n), INF)
    best[0, s] = 0.0
    for h in range(1, hmax):
        # best[h][v] = min_u best[h-1][u] + L[u][v]
        best[h] = np.min(best[h - 1][:, None] + L, axis=0)
    return best


def count_sp(Lf, D):
    """sigma[s][t] = number of shortest s->t paths (positive lengths required),
    pred DAG based. Returns sigma (ints)."""
    n = len(Lf)
    sigma = [[0] * n for _ in range(n)]
    for s in range(n):
        order = sorted([v for v in range(n) if D[s][v] is not None], key=lambda v: D[s][v])
        sigma[s][s] = 1
        for v in order:
            if v == s:
                continue
            tot = 0
            for u in range(n):
                l = Lf[u][v]
                if u == v or l is None or D[s][u] is None:
                    continue
                if D[s][u] + l == D[s][v]:
                    tot += sigma[s][u]
            sigma[s][v] = tot
    return sigma


def betweenness_exact(Lf):
    """Node and edge betweenness by the definition (positive lengths).
    BC[v] = sum_{s!=v!=t, s!=t} sigma(s,t|v)/sigma(s,t); EBC[u][v] = sum_{s!=t} sigma(s,t|(u,v))/sigma(s,t)."""
    n = len(Lf)
    D = exact_sp(Lf)
    sig = count_sp(Lf, D)
    BC = [Fraction(0)] * n
    EBC = [[Fraction(0)] * n for _ in range(n)]
    for s in range(n):
        for t in range(n):
            if s == t or D[s][t] is None:
                continue
            st_ = sig[s][t]
            for v in range(n):
                if v == s or v == t:
                    continue
                if D[s][v] is not None and D[v][t] is not None and D[s][v] + D[v][t] == D[s][t]:
                    BC[v] += Fraction(sig[s][v] * sig[v][t], st_)
            for u in range(n):
                if D[s][u] is None:
                    continue
                for v in range(n):
                    l = Lf[u][v]
                    if u == v or l is None or D[v][t] is None:
                        continue
                    if D[s][u] + l + D[v][t] == D[s][t]:
                        EBC[u][v] += Fraction(sig[s][u] * sig[v][t], st_)
    return BC, EBC, D, sig


def all_simple_paths(A, s, t):
    """All simple paths s->t as node lists (small n only; used by selftest)."""
    n = len(A)
    out = []

    def rec(path, seen):
        u = path[-1]
        if u == t:
            out.append(list(path))
            return
        for v in range(n):
            if v != u and A[u][v] and v not in seen:
                seen.add(v)
                path.append(v)
                rec(path, seen)
                path.pop()
                seen.discard(v)
    rec([s], {s})
    return out
