"""k-core / s-core oracles: subset enumeration (small n) and an independent one-node-at-a-time peel."""
import itertools

import numpy as np


def _deg_in(S, Wsym_or_tot, nodes):
    """degree/strength of each node of `nodes` inside the set `nodes` (Wsym_or_tot[i,j] = contribution of j to i)."""
    idx = list(nodes)
    sub = Wsym_or_tot[np.ix_(idx, idx)]
    return sub.sum(axis=1)


def contribution_matrix(W, kind):
    """M[i,j] = what node j contributes to node i's degree/strength.
    kind 'bu': a_ij (undirected); 'bd': a_ij + a_ji (in + out); 'wu': w_ij."""
    W = np.asarray(W, dtype=float)
    if kind == "bu":
        M = (W != 0).astype(float)
    elif kind == "bd":
        A = (W != 0).astype(float)
        M = A + A.T
    else:
        M = W.copy()
    M = M.copy()
    np.fill_diagonal(M, 0)
    return M


def core_by_subsets(M, k):
    """Largest node set in which every node keeps value >= k inside the set (union of all valid sets)."""
    n = len(M)
    best = set()
    for r in range(1, n + 1):
        for S in itertools.combinations(range(n), r):
            idx = list(S)
            if np.all(M[np.ix_(idx, idx)].sum(axis=1) >= k):
                best |= set(S)
    return best


def core_by_peel(M, k):
    """Remove one violating node at a time (lowest index first) until none violates."""
    n = len(M)
    alive = np.ones(n, dtype=bool)
    d = M.sum(axis=1).astype(float)
    while True:
        bad = np.flatnonzero(alive & (d < k))
        if bad.size == 0:
            return set(np.flatnonzero(alive).tolist())
        v = int(bad[0])
        alive[v] = False
        d = d - M[:, v]
