"""Modularity recomputed from the definitions (O(n^2) double sum over label equality)."""
import numpy as np


def _delta(ci):
    ci = np.asarray(ci)
    return ci[:, None] == ci[None, :]


def q_newman(W, ci, gamma=1.0):
    """Directed Leicht-Newman form (reduces to Newman's for symmetric W):
    Q = 1/s * sum_ij [W_ij - gamma * kout_i kin_j / s] delta(c_i, c_j), s = sum(W)."""
    W = np.asarray(W, dtype=float)
    Wn = W / W.sum()              # evaluate on the normalised matrix: no overflow / underflow for any weight scale
    ko = Wn.sum(axis=1)
    ki = Wn.sum(axis=0)
    n = len(W)
    d = _delta(ci)
    tot = 0.0
    for i in range(n):
        for j in range(n):
            if d[i, j]:
                tot += Wn[i, j] - gamma * ko[i] * ki[j]
    return tot


def _parts(W):
    W = np.asarray(W, dtype=float)
    W0 = W * (W > 0)
    W1 = -W * (W < 0)
    return W0, W1, W0.sum(), W1.sum()


def _raw(Wp, ci, gamma, sp):
    """(1/sp) * sum_ij [Wp_ij - gamma k_i k_j / sp] delta, evaluated on Wp/sp (scale-invariant; 0 if sp == 0)"""
    if sp == 0:
        return 0.0
    Wn = Wp / sp
    ko = Wn.sum(axis=1)
    ki = Wn.sum(axis=0)
    d = _delta(ci)
    return float(np.sum((Wn - gamma * np.outer(ko, ki)) * d))


def q_signed(W, ci, gamma=1.0, qtype="sta"):
    """Rubinov & Sporns (2011) signed modularities, gamma on both null terms.
    smp: Q+/v+ - Q-/v-   gja: (Q+ - Q-)/(v+ + v-)   sta: Q+/v+ - Q-/(v+ + v-)   pos: Q+/v+   neg: -Q-/v-"""
    W0, W1, s0, s1 = _parts(W)
    r0 = _raw(W0, ci, gamma, s0)          # already divided by s0
    r1 = _raw(W1, ci, gamma, s1)          # already divided by s1
    tot = s0 + s1
    f0 = s0 / tot if tot else 0.0         # v+ / (v+ + v-), computed from the ratio (scale-invariant)
    f1 = s1 / tot if tot else 0.0
    if qtype == "smp":
        return r0 - r1
    if qtype == "gja":
        return f0 * r0 - f1 * r1
    if qtype == "sta":
        return r0 - f1 * r1
    if qtype == "pos":
        return r0
    if qtype == "neg":
        return -r1
    raise KeyError(qtype)


def q_objective(W, ci, gamma, objective):
    """Quality reported by community_louvain for its built-in objectives."""
    if objective == "modularity":
        return q_newman(W, ci, gamma)
    if objective == "negative_sym":
        return q_signed(W, ci, gamma, "gja")
    if objective == "negative_asym":
        return q_signed(W, ci, gamma, "sta")
    raise KeyError(objective)


def same_partition(a, b):
    return bool(np.array_equal(_delta(a), _delta(b)))


def is_coarsening(fine, coarse):
    """every block of `fine` lies inside one block of `coarse`"""
    fine = np.asarray(fine)
    coarse = np.asarray(coarse)
    for l in np.unique(fine):
        if len(np.unique(coarse[fine == l])) != 1:
            return False
    return True
