"""Modularity recomputed from the definitions (O(n^2) double sum over label equality)."""
import numpy as np


def _delta(ci):
    ci = np.asarray(ci)
    return ci[:, None] == ci[None, :]


def q_newman(W, ci, gamma=1.0):
    """Directed Leicht-Newman form (reduces to Newman's for symmetric W):
    Q = 1/s * sum_ij [W_ij - gamma * kout_i kin_j / s] delta(c_i, c_j), s = sum(W)."""
    W = np.asarray(W, dtype=float)
    s = W.sum()
    ko = W.sum(axis=1)
    ki = W.sum(axis=0)
    n = len(W)
    d = _delta(ci)
    tot = 0.0
    for i in range(n):
        for j in range(n):
            if d[i, j]:
                tot += W[i, j] - gamma * ko[i] * ki[j] / s
    return tot / s


def _parts(W):
    W = np.asarray(W, dtype=float)
    W0 = W * (W > 0)
    W1 = -W * (W < 0)
    return W0, W1, W0.sum(), W1.sum()


def _raw(Wp, ci, gamma, sp):
    """sum_ij [Wp_ij - gamma k_i k_j / sp] delta  (0 if sp == 0)"""
    if sp == 0:
        return 0.0
    ko = Wp.sum(axis=1)
    ki = Wp.sum(axis=0)
    d = _delta(ci)
    return float(np.sum((Wp - gamma * np.outer(ko, ki) / sp) * d))


def q_signed(W, ci, gamma=1.0, qtype="sta"):
    """Rubinov & Sporns (2011) signed modularities, gamma on both null terms.
    smp: Q+/v+ - Q-/v-   gja: (Q+ - Q-)/(v+ + v-)   sta: Q+/v+ - Q-/(v+ + v-)   pos: Q+/v+   neg: -Q-/v-"""
    W0, W1, s0, s1 = _parts(W)
    r0 = _raw(W0, ci, gamma, s0)
    r1 = _raw(W1, ci, gamma, s1)
    if qtype == "smp":
        d0, d1 = (1 / s0 if s0 else 0), (1 / s1 if s1 else 0)
    elif qtype == "gja":
        d0 = d1 = 1 / (s0 + s1)
    elif qtype == "sta":
        d0, d1 = (1 / s0 if s0 else 0), 1 / (s0 + s1)
    elif qtype == "pos":
        d0, d1 = (1 / s0 if s0 else 0), 0
    elif qtype == "neg":
        d0, d1 = 0, (1 / s1 if s1 else 0)
    else:
        raise KeyError(qtype)
    if not s0:
        d0 = 0
    if not s1:
        d1 = 0
    return d0 * r0 - d1 * r1


def q_objective(W, ci, gamma, objective):
    """Quality reported by community_louvain for its built-in objectives."""
    if objective == "modularity":
        return q_newman(W, ci, gamma)
    if objective == "negative_sym":
        return q_signed(W, ci, gamma, "gja")
    if objective == "negative_asym":
        return q_signed(W, ci, gamma, "sta")
    raise KeyError(objective)


def same_partition(a, b):
    return bool(np.array_equal(_delta(a), _delta(b)))


def is_coarsening(fine, coarse):
    """every block of `fine` lies inside one block of `coarse`"""
    fine = np.asarray(fine)
    coarse = np.asarray(coarse)
    for l in np.unique(fine):
        if len(np.unique(coarse[fine == l])) != 1:
            return False
    return True
