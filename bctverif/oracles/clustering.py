"""Clustering / transitivity by direct enumeration of node triples (published definitions)."""
import numpy as np


def _cbrt(x):
    return np.sign(x) * abs(x) ** (1.0 / 3.0)


def und_terms(W, weighted):
    """Per-node numerator and denominator of the undirected coefficient.
    numerator[u] = sum over ordered pairs (j,h), j!=h, both neighbours of u, of
                   a_jh (binary) or (w_uj w_uh w_jh)^(1/3) (Onnela);
    denominator[u] = k_u (k_u - 1)."""
    n = len(W)
    A = (np.asarray(W) != 0)
    num = np.zeros(n)
    den = np.zeros(n)
    for u in range(n):
        nb = [j for j in range(n) if j != u and A[u, j]]
        k = len(nb)
        den[u] = k * (k - 1)
        t = 0.0
        for j in nb:
            for h in nb:
                if j != h and A[j, h]:
                    t += _cbrt(W[u, j] * W[u, h] * W[j, h]) if weighted else 1.0
        num[u] = t
    return num, den


def dir_terms(W, weighted):
    """Fagiolo's directed count.
    numerator[i] = 1/2 sum_{j,h} (x_ij+x_ji)(x_ih+x_hi)(x_jh+x_hj), x = a or w^(1/3);
    denominator[i] = ktot_i (ktot_i - 1) - 2 sum_j a_ij a_ji."""
    n = len(W)
    A = (np.asarray(W) != 0).astype(float)
    X = np.array([[_cbrt(float(W[i, j])) for j in range(n)] for i in range(n)]) if weighted else A
    num = np.zeros(n)
    den = np.zeros(n)
    for i in range(n):
        t = 0.0
        for j in range(n):
            if j == i:
                continue
            sij = X[i, j] + X[j, i]
            if sij == 0:
                continue
            for h in range(n):
                if h == i or h == j:
                    continue
                t += sij * (X[i, h] + X[h, i]) * (X[j, h] + X[h, j])
        num[i] = t / 2.0
        ktot = sum(A[i, j] + A[j, i] for j in range(n) if j != i)
        bil = sum(A[i, j] * A[j, i] for j in range(n) if j != i)
        den[i] = ktot * (ktot - 1) - 2 * bil
    return num, den


def zhang_terms(Wp):
    """Zhang & Horvath (2005) weighted coefficient of a non-negative matrix:
    numerator[i] = sum_{j,q} w_ji w_iq w_jq, denominator[i] = sum_{j != q} w_ji w_iq  (j, q range over all nodes)"""
    n = len(Wp)
    num = np.zeros(n)
    den = np.zeros(n)
    for i in range(n):
        for j in range(n):
            for q in range(n):
                num[i] += Wp[j, i] * Wp[i, q] * Wp[j, q]
                if j != q:
                    den[i] += Wp[j, i] * Wp[i, q]
    return num, den


def costantini_terms(W):
    """Costantini & Perugini (2014) signed generalisation:
    numerator[i] = sum_{j,q} w_ji w_iq w_jq, denominator[i] = sum_{j != q} |w_ji w_iq|"""
    n = len(W)
    num = np.zeros(n)
    den = np.zeros(n)
    for i in range(n):
        for j in range(n):
            for q in range(n):
                num[i] += W[j, i] * W[i, q] * W[j, q]
                if j != q:
                    den[i] += abs(W[j, i] * W[i, q])
    return num, den


def coef(num, den):
    C = np.zeros(len(num))
    for u in range(len(num)):
        if num[u] != 0 and den[u] != 0:
            C[u] = num[u] / den[u]
    return C


def transitivity(num, den):
    s = float(np.sum(den))
    if s == 0:
        return None     # 0/0: no connected triple at all
    return float(np.sum(num)) / s
