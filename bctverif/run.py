"""CLI: python -m bctverif.run <Cnn> [--tier quick|thorough] [--replay FILE]

exit 0  property held on everything explored (known findings printed as KNOWN-FINDING lines)
exit 1  at least one VIOLATION line printed
exit 2  harness problem (never a verdict)
"""
import argparse
import importlib
import json
import multiprocessing
import os
import sys
import time
import traceback
from collections import Counter

VERIF = os.path.dirname(os.path.dirname(os.path.abspath(__file__)))
OUT = os.environ.get("VERIF_OUT", VERIF)   # dev only (mutant runner); registered commands never set it


def _bootstrap():
    if os.environ.get("PYTHONHASHSEED") != "0" or os.environ.get("BCTPY_VERIF") != "1" or os.environ.get("OMP_NUM_THREADS") != "1":
        env = dict(os.environ)
        env["PYTHONHASHSEED"] = "0"
        env["BCTPY_VERIF"] = "1"
        # one BLAS thread per worker process: no oversubscription, no fork-after-threads surprises
        env["OMP_NUM_THREADS"] = env["OPENBLAS_NUM_THREADS"] = env["MKL_NUM_THREADS"] = "1"
        os.execve(sys.executable, [sys.executable, "-m", "bctverif.run"] + sys.argv[1:], env)
    repo = os.path.realpath(os.environ.get("VERIF_REPO", "/repo"))
    sys.path.insert(0, repo)
    deps = os.path.join(VERIF, ".deps")
    try:
        import hypothesis  # noqa
    except ImportError:
        if os.path.isdir(deps):
            sys.path.append(deps)
        try:
            import hypothesis  # noqa
        except ImportError:
            import subprocess
            subprocess.check_call([sys.executable, "-m", "pip", "install", "-q", "--no-index",
                                   "--find-links", "/opt/veriftools/wheels", "--target", deps,
                                   "hypothesis"], stdout=sys.stderr)
            sys.path.append(deps)
            import hypothesis  # noqa
    import warnings
    warnings.simplefilter("ignore")
    import bct
    where = os.path.realpath(bct.__file__)
    if not where.startswith(repo + os.sep):
        print("HARNESS: bct imported from %s, not from %s" % (where, repo), file=sys.stderr)
        sys.exit(2)
    return repo


_MOD = None
_TIER = None
_SEED = None
_KF = None


def _worker(task):
    from . import core
    ui, shard, nshards = task
    unit = _MOD.units(_TIER)[ui]
    t0 = time.time()
    try:
        res = core.run_unit(unit, _TIER, _SEED, shard, nshards, _KF)
        res["wall_s"] = time.time() - t0
        return ("ok", res)
    except core.HarnessError as e:
        return ("harness", str(e))
    except BaseException:
        return ("harness", "unit %s shard %d\n%s" % (unit.name, shard, traceback.format_exc()))


def _replay_file(mod, path, kf):
    from . import canon, core
    with open(path) as fh:
        rec = json.load(fh)
    case = canon.from_jsonable(rec["case"])
    units = {u.name: u for u in mod.units("quick")}
    units.update({u.name: u for u in mod.units("thorough")})
    uname = rec.get("unit")
    if uname not in units:
        raise core.HarnessError("replay file %s names unknown unit %r" % (path, uname))
    ctx = core.Ctx(uname)
    fails = core.run_check(units[uname], case, ctx)
    inconclusive = sum(ctx.timeouts.values()) > 0
    return rec, fails, inconclusive


def _compact_sample(x, limit=900):
    """evidence samples are for reading: arrays with more than `limit` entries are replaced by a description
    (replay files of failures always hold the full case)"""
    if isinstance(x, dict):
        if "__nd__" in x:
            try:
                import numpy as _np
                from . import canon
                a = _np.array(canon.from_jsonable(x))
                if a.size > limit:
                    fin = a[_np.isfinite(a)] if a.dtype.kind == "f" else a
                    return {"__nd_summary__": {"shape": list(a.shape), "dtype": str(a.dtype), "nonzero": int(_np.count_nonzero(a)),
                                               "min": (float(fin.min()) if fin.size else None), "max": (float(fin.max()) if fin.size else None),
                                               "symmetric": bool(a.ndim == 2 and a.shape[0] == a.shape[1] and _np.array_equal(a, a.T, equal_nan=(a.dtype.kind == "f")))}}
            except Exception:
                pass
            return x
        return {k: _compact_sample(v, limit) for k, v in x.items()}
    if isinstance(x, list):
        if len(x) > limit:
            return {"__list_summary__": {"length": len(x), "head": [_compact_sample(v, limit) for v in x[:5]]}}
        return [_compact_sample(v, limit) for v in x]
    return x


def main():
    repo = _bootstrap()
    from . import canon, core, kf as kfmod
    ap = argparse.ArgumentParser()
    ap.add_argument("prop")
    ap.add_argument("--tier", default=os.environ.get("VERIF_TIER", "quick"), choices=["quick", "thorough"])
    ap.add_argument("--replay")
    ap.add_argument("--units", default=None, help="comma-separated unit-name substrings (dev)")
    ap.add_argument("--workers", type=int, default=0)
    ap.add_argument("--scale", type=float, default=1.0, help="multiply example budgets (dev)")
    args = ap.parse_args()
    pid = args.prop.upper()
    global _MOD, _TIER, _SEED, _KF
    mod = importlib.import_module("bctverif.props." + pid.lower())
    try:
        verif_seed = int(os.environ.get("VERIF_SEED", "1"))
    except ValueError:
        verif_seed = 1
    matcher = kfmod.Matcher(pid, getattr(mod, "KF_PREDICATES", {}))

    # ---------------- replay mode -------------------------------------
    if args.replay:
        rec, fails, inconclusive = _replay_file(mod, args.replay, matcher)
        if fails:
            for f in fails:
                print("  %s: %s" % (f.key, f.msg))
            print("VIOLATION property=%s replay=%s" % (pid, args.replay))
            return 1
        print("replay passes%s: %s" % (" (inconclusive: timeout)" if inconclusive else "", args.replay))
        return 0

    t_start = time.time()
    _MOD, _TIER, _SEED, _KF = mod, args.tier, verif_seed, matcher
    violations = []       # (key, msg, replay path)
    known_lines = []

    # ---------------- witnesses of known / fixed findings ---------------
    witness_info = []
    for e in matcher.entries:
        w = e.get("witness")
        if not w:
            continue
        wpath = os.path.join(VERIF, w)
        rec, fails, inconclusive = _replay_file(mod, wpath, matcher)
        still = [f for f in fails if f.key == e["key"]]
        witness_info.append({"id": e["id"], "status": e["status"], "witness_fails": bool(still)})
        if e["status"] == "known":
            if still:
                known_lines.append("KNOWN-FINDING: property=%s %s [%s] %s" % (pid, e["id"], e["call_site"], e["what"]))
        else:  # fixed: must pass now
            if still:
                violations.append((e["key"], "regression of fixed finding %s: %s" % (e["id"], still[0].msg), w))

    # ---------------- generated search --------------------------------
    units = mod.units(args.tier)
    if args.units:
        want = args.units.split(",")
        keep = [i for i, u in enumerate(units) if any(w in u.name for w in want)]
    else:
        keep = list(range(len(units)))
    if args.scale != 1.0:
        for u in units:
            u.examples = tuple(max(1, int(x * args.scale)) for x in u.examples)
    tasks = []
    for ui in keep:
        u = units[ui]
        ns = u.n_shards(args.tier)
        for s in range(ns):
            tasks.append((ui, s, ns))
    nworkers = args.workers or min(16, os.cpu_count() or 1)
    ctxm = multiprocessing.get_context("fork")
    results = []
    harness_errors = []
    with ctxm.Pool(nworkers, maxtasksperchild=8) as pool:
        for status, res in pool.imap_unordered(_worker, tasks, chunksize=1):
            if status == "ok":
                results.append(res)
            else:
                harness_errors.append(res)

    # ---------------- coverage-guided campaigns (atheris / libFuzzer) ------------
    fuzz_info = {}
    fuzz_units = getattr(mod, "FUZZ_UNITS", {}).get(args.tier, []) if not args.units else []
    if fuzz_units:
        import shutil
        import subprocess
        import tempfile
        deps = os.path.join(VERIF, ".deps")
        have = True
        try:
            sys.path.append(deps)
            import atheris  # noqa: F401
        except Exception:
            have = False
            fuzz_info["unavailable"] = "atheris not importable (run ./setup.sh)"
        if have:
            nproc, runs, max_time = (4, 6000, 60) if args.tier == "quick" else (16, 60000, 900)
            tmp = tempfile.mkdtemp(prefix="bctfuzz_")
            try:
                procs = []
                for ui_, uname in enumerate(fuzz_units):
                    for k in range(nproc):
                        out = os.path.join(tmp, "u%d_%d" % (ui_, k))
                        cmd = [sys.executable, "-m", "bctverif.fuzz", pid, uname, "--runs", str(runs), "--seed", str(verif_seed * 1000 + k + 1),
                               "--out", out, "--max-time", str(max_time)]
                        procs.append((uname, out, subprocess.Popen(cmd, cwd=VERIF, stdout=subprocess.DEVNULL, stderr=subprocess.DEVNULL)))
                for uname, out, pr in procs:
                    try:
                        pr.wait(timeout=max_time + 120)
                    except subprocess.TimeoutExpired:
                        pr.kill()
                    fi = fuzz_info.setdefault(uname, {"processes": 0, "libfuzzer_runs_requested": 0, "evaluations": 0, "_h": set(), "wall_s": 0.0, "failures": 0})
                    fi["processes"] += 1
                    fi["libfuzzer_runs_requested"] += runs
                    sp = os.path.join(out, "stats.json")
                    if os.path.exists(sp):
                        with open(sp) as fh:
                            stt = json.load(fh)
                        fi["evaluations"] += stt["evaluations"]
                        fi["_h"] |= set(stt["nontrivial"])
                        fi["wall_s"] = round(fi["wall_s"] + stt["wall_s"], 1)
                        results.append({"unit": uname + "[coverage-guided]", "evaluations": stt["evaluations"], "calls": stt["calls"],
                                        "hook_events": 0, "nontrivial": set(stt["nontrivial"]), "classes": Counter(), "rejections": Counter(),
                                        "timeouts": Counter(stt["timeouts"]), "crashes": Counter(), "kf_hits": Counter(stt["kf_hits"]),
                                        "notes": Counter(), "samples": stt.get("samples", [])[:1], "failures": [], "wall_s": stt["wall_s"]})
                    fp = os.path.join(out, "failure.json")
                    if os.path.exists(fp):
                        with open(fp) as fh:
                            frec = json.load(fh)
                        fi["failures"] += 1
                        results.append({"unit": uname, "evaluations": 0, "calls": 0, "hook_events": 0, "nontrivial": set(), "classes": Counter(),
                                        "rejections": Counter(), "timeouts": Counter(), "crashes": Counter(), "kf_hits": Counter(), "notes": Counter(),
                                        "samples": [], "wall_s": 0.0,
                                        "failures": [{"key": frec["key"], "msg": frec["msg"] + " [found by the coverage-guided campaign, not shrunk]",
                                                      "case": frec["case"], "info": frec.get("info", {})}]})
                for fi in fuzz_info.values():
                    if isinstance(fi, dict) and "_h" in fi:
                        fi["distinct_nontrivial"] = len(fi.pop("_h"))
            finally:
                shutil.rmtree(tmp, ignore_errors=True)

    # ---------------- merge ------------------------------------------
    tot = {"evaluations": 0, "calls": 0, "hook_events": 0}
    nontrivial = set()
    classes, rejections, timeouts, crashes, kf_hits, notes = (Counter() for _ in range(6))
    per_unit = {}
    samples = []
    exhaustive_units = {}
    failures = {}
    for r in results:
        tot["evaluations"] += r["evaluations"]
        tot["calls"] += r["calls"]
        tot["hook_events"] += r["hook_events"]
        nontrivial |= {r["unit"] + ":" + h for h in r["nontrivial"]}
        classes.update(r["classes"]); rejections.update(r["rejections"])
        timeouts.update(r["timeouts"]); crashes.update(r["crashes"])
        kf_hits.update(r["kf_hits"]); notes.update(r["notes"])
        pu = per_unit.setdefault(r["unit"], {"evaluations": 0, "distinct_nontrivial": 0, "wall_s": 0.0, "_h": set()})
        pu["evaluations"] += r["evaluations"]
        pu["_h"] |= r["nontrivial"]
        pu["wall_s"] = round(pu["wall_s"] + r["wall_s"], 2)
        if "exh_total" in r:
            exhaustive_units[r["unit"]] = exhaustive_units.get(r["unit"], 0) + r["exh_total"]
        for s in r["samples"]:
            if sum(1 for x in samples if x["unit"] == r["unit"]) < 2:
                samples.append({"unit": r["unit"], "case": _compact_sample(s)})
        for f in r["failures"]:
            failures.setdefault((r["unit"], f["key"]), f)
    for pu in per_unit.values():
        pu["distinct_nontrivial"] = len(pu.pop("_h"))

    # ---------------- report failures -----------------------------------
    rdir = os.path.join(OUT, "replays", pid)
    for (uname, key), f in sorted(failures.items()):
        os.makedirs(rdir, exist_ok=True)
        rec = {"property": pid, "unit": uname, "key": key, "msg": f["msg"], "case": f["case"], "info": f.get("info", {})}
        h = canon.case_hash(rec)
        rel = os.path.join("replays", pid, h + ".json")
        with open(os.path.join(OUT, rel), "w") as fh:
            json.dump(rec, fh, indent=1, sort_keys=True)
        violations.append((key, f["msg"], rel))

    for line in known_lines:
        print(line)
    for key, msg, rel in violations:
        print("  [%s] %s" % (key, msg[:400]))
        print("VIOLATION property=%s replay=%s" % (pid, rel))

    # ---------------- evidence -----------------------------------------
    wall = time.time() - t_start
    space = {u.name: u.space for u in units if u.space}
    all_exh = all(units[i].kind == "exh" for i in keep)
    cov = {
        "evaluations": tot["evaluations"],
        "distinct_nontrivial": len(nontrivial),
        "rule": mod.RULE,
        "samples": samples[:12],
        "exhaustive": bool(all_exh),
        "exhaustive_units": exhaustive_units,
        "space": space,
        "calls": tot["calls"],
        "classes": dict(sorted(classes.items())),
        "per_unit": per_unit,
        "rejections": dict(rejections),
        "timeouts_inconclusive": dict(timeouts),
        "crash_buckets": dict(crashes),
        "known_findings_hit": dict(kf_hits),
        "known_finding_witnesses": witness_info,
        "hook_events": tot["hook_events"],
        "coverage_guided": fuzz_info,
        "notes": dict(notes),
        "bounds": getattr(mod, "BOUNDS", {}),
        "violation_keys": sorted({v[0] for v in violations}),
        "units_run": [units[i].name for i in keep],
        "workers": nworkers,
        "repo": repo,
    }
    ev = {
        "property_id": pid,
        "tier": args.tier,
        "seed": verif_seed,
        "level": "exploration",
        "coverage": cov,
        "assumptions": getattr(mod, "ASSUMPTIONS", []) + [
            "numpy, scipy, CPython and Hypothesis behave as documented",
            "the independent oracles in bctverif/oracles (validated by bctverif.selftest) are correct",
            "bounded search: nothing is claimed beyond the sizes and case counts reported here",
        ],
        "wall_s": round(wall, 2),
        "violations": len(violations),
    }
    if not args.units:
        os.makedirs(os.path.join(OUT, "evidence"), exist_ok=True)
        with open(os.path.join(OUT, "evidence", pid + ".json"), "w") as fh:
            json.dump(ev, fh, indent=1, sort_keys=True)

    print("%s tier=%s seed=%d evaluations=%d distinct_nontrivial=%d calls=%d timeouts=%d known_hits=%d violations=%d wall=%.1fs"
          % (pid, args.tier, verif_seed, tot["evaluations"], len(nontrivial), tot["calls"],
             sum(timeouts.values()), sum(kf_hits.values()), len(violations), wall))
    if args.units:
        for name, pu in sorted(per_unit.items()):
            print("   unit %-40s eval=%-7d nontrivial=%-6d wall=%.1f" % (name, pu["evaluations"], pu["distinct_nontrivial"], pu["wall_s"]))
        print("   classes:", dict(sorted(classes.items())))
        print("   crashes:", dict(crashes), "rejections:", dict(rejections), "timeouts:", dict(timeouts), "kf:", dict(kf_hits), "notes:", dict(notes))

    if harness_errors:
        for h in harness_errors[:5]:
            print("HARNESS: " + h, file=sys.stderr)
        return 1 if violations else 2
    if violations:
        return 1
    floor = getattr(mod, "MIN_NONTRIVIAL", {"quick": 2, "thorough": 2})[args.tier]
    if not args.units and len(nontrivial) < floor:
        print("HARNESS: only %d distinct non-trivial cases (< floor %d): generator is not reaching the interesting region"
              % (len(nontrivial), floor), file=sys.stderr)
        return 2
    return 0


if __name__ == "__main__":
    try:
        rc = main()
    except SystemExit:
        raise
    except BaseException:
        traceback.print_exc()
        rc = 2
    sys.exit(rc)
