#!/usr/bin/env python3
"""Dev helper: refresh the generated seeded-changes table inside DESIGN.md."""
import os, subprocess
V = os.path.dirname(os.path.dirname(os.path.abspath(__file__)))
t = subprocess.run(["python3", os.path.join(V, "tools", "seed_table.py")], capture_output=True, text=True).stdout
p = os.path.join(V, "DESIGN.md")
s = open(p).read()
a, b = s.index("<!-- SEED-TABLE-BEGIN -->") + len("<!-- SEED-TABLE-BEGIN -->"), s.index("<!-- SEED-TABLE-END -->")
open(p, "w").write(s[:a] + "\n" + t + s[b:])
print("table refreshed")
