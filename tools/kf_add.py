#!/usr/bin/env python3
"""Dev helper (not used at check time): record a finding in known_findings.json and copy its witness."""
import argparse, json, os, shutil
V = os.path.dirname(os.path.dirname(os.path.abspath(__file__)))
ap = argparse.ArgumentParser()
ap.add_argument("--id", required=True); ap.add_argument("--prop", required=True)
ap.add_argument("--status", required=True, choices=["known", "fixed"])
ap.add_argument("--commit", default=None); ap.add_argument("--replay", required=True)
ap.add_argument("--call-site", required=True); ap.add_argument("--what", required=True)
ap.add_argument("--predicate", default=None)
a = ap.parse_args()
rec = json.load(open(os.path.join(V, a.replay)))
w = os.path.join("findings", a.id + ".json")
shutil.copy(os.path.join(V, a.replay), os.path.join(V, w))
p = os.path.join(V, "known_findings.json")
d = json.load(open(p))
d["findings"] = [e for e in d["findings"] if e["id"] != a.id]
e = {"id": a.id, "property": a.prop, "status": a.status, "key": rec["key"], "unit": rec["unit"],
     "call_site": a.call_site, "witness": w, "what": a.what}
if a.predicate: e["predicate"] = a.predicate
if a.status == "fixed":
    e["commit"] = a.commit
    e["record"] = "fixed: property=%s %s %s" % (a.prop, a.commit, a.what)
else:
    e["record"] = "KNOWN-FINDING: property=%s %s" % (a.prop, a.what)
d["findings"].append(e)
d["findings"].sort(key=lambda e: e["id"])
json.dump(d, open(p, "w"), indent=1)
print("recorded", a.id)
