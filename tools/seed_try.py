#!/usr/bin/env python3
"""Dev tool: confirm a seeded change (patch.diff + demo.py + meta.json) and run the checks against it.

usage: tools/seed_try.py SRC_DIR SEED_ID PROP [--no-suite] [--tier quick]
 1. scratch copy of /repo's working tree under /tmp; `git apply` the patch there
 2. demo.py must fail on the scratch copy and pass on /repo
 3. the pinned suite must still pass its 61 baseline tests on the scratch copy (junit, compared with BASELINE.json)
 4. ./vcheck PROP --tier quick with VERIF_REPO=scratch -> caught / missed
 Result is stored in /verif/seeded/SEED_ID/ (patch.diff, demo.py, meta.json). Scratch is removed."""
import json, os, shutil, subprocess, sys, tempfile, time, xml.etree.ElementTree as ET
V = os.path.dirname(os.path.dirname(os.path.abspath(__file__)))
src, sid, prop = sys.argv[1], sys.argv[2], sys.argv[3].upper()
no_suite = "--no-suite" in sys.argv
tier = sys.argv[sys.argv.index("--tier") + 1] if "--tier" in sys.argv else "quick"
d = tempfile.mkdtemp(prefix="bctseed_")
out = {}
try:
    for sub in ("bct", "test", "setup.py", "tox.ini"):
        p = os.path.join("/repo", sub)
        (shutil.copytree if os.path.isdir(p) else shutil.copy)(p, os.path.join(d, sub))
    r = subprocess.run(["git", "apply", "--recount", os.path.abspath(os.path.join(src, "patch.diff"))], cwd=d, capture_output=True, text=True)
    if r.returncode:
        r = subprocess.run(["patch", "-p1", "-i", os.path.abspath(os.path.join(src, "patch.diff"))], cwd=d, capture_output=True, text=True)
    out["applies"] = r.returncode == 0
    if not out["applies"]:
        print("PATCH DOES NOT APPLY:", r.stdout[-500:], r.stderr[-500:]); sys.exit(3)
    demo = os.path.abspath(os.path.join(src, "demo.py"))
    def rundemo(tree):
        return subprocess.run(["/venv/bin/python", demo], env=dict(os.environ, PYTHONPATH=tree), cwd="/tmp", capture_output=True, text=True, timeout=900)
    a = rundemo(d); b = rundemo("/repo")
    out["demo_patched_rc"], out["demo_clean_rc"] = a.returncode, b.returncode
    out["demo_patched_tail"] = (a.stdout + a.stderr)[-300:]
    print("demo: patched rc=%d clean rc=%d" % (a.returncode, b.returncode))
    if not no_suite:
        t0 = time.time()
        jx = os.path.join(d, "junit.xml")
        subprocess.run(["/venv/bin/python", "-m", "pytest", "-q", "-p", "no:cacheprovider", "--timeout=900", "--continue-on-collection-errors", "--junitxml=" + jx],
                       cwd=d, env=dict(os.environ, PYTHONPATH=d), capture_output=True, text=True)
        passed = set()
        for tc in ET.parse(jx).getroot().iter("testcase"):
            if not any(ch.tag in ("failure", "error", "skipped") for ch in tc):
                passed.add(tc.get("classname") + "::" + tc.get("name"))
        base = set(json.load(open("/root/.vp/BASELINE.json"))["stable_pass"])
        out["suite_missing"] = sorted(base - passed)
        out["suite_ok"] = not out["suite_missing"]
        print("suite: %d baseline tests pass, missing %s (%.0fs)" % (len(base & passed), out["suite_missing"], time.time() - t0))
    env = dict(os.environ, VERIF_REPO=d, VERIF_OUT=os.path.join(d, "out"))
    t0 = time.time()
    r = subprocess.run([os.path.join(V, "vcheck"), prop, "--tier", tier], env=env, capture_output=True, text=True)
    out["check_rc"] = r.returncode
    out["check_keys"] = [l.strip()[:200] for l in r.stdout.splitlines() if l.startswith("  [")][:4]
    out["check_wall_s"] = round(time.time() - t0, 1)
    out["check_tier"] = tier
    print("check %s %s: rc=%d %s (%.0fs)" % (prop, tier, r.returncode, {0: "MISSED", 1: "CAUGHT", 2: "HARNESS"}.get(r.returncode), time.time() - t0))
    for k in out["check_keys"]: print("   ", k)
    if r.returncode == 2: print(r.stderr[-600:])
finally:
    shutil.rmtree(d, ignore_errors=True)
dst = os.path.join(V, "seeded", sid)
os.makedirs(dst, exist_ok=True)
for f in ("patch.diff", "demo.py"):
    if os.path.abspath(src) != os.path.abspath(dst):
        shutil.copy(os.path.join(src, f), os.path.join(dst, f))
meta = {}
mp = os.path.join(src, "meta.json")
if os.path.exists(mp):
    try: meta = json.load(open(mp))
    except Exception: meta = {"raw": open(mp).read()}
meta["property"] = prop
prev = meta.get("verification", {})
if no_suite and "suite_ok" in prev:
    out["suite_ok"] = prev["suite_ok"]; out["suite_missing"] = prev.get("suite_missing", [])
meta["verification"] = out
meta["verified_against_repo_commit"] = subprocess.run(["git", "-C", "/repo", "rev-parse", "--short", "HEAD"], capture_output=True, text=True).stdout.strip()
json.dump(meta, open(os.path.join(dst, "meta.json"), "w"), indent=1)
