#!/usr/bin/env python3
"""Dev tool (not in MANIFEST): sensitivity test of the checks.

Applies each hand-made mutant of tools/mutants.json to a scratch copy of /repo's
working tree under /tmp (removed afterwards) and runs the property's QUICK check
against it through VERIF_REPO. A check must exit 1 on its mutants.
usage: tools/mutate.py [Cnn ...] [--id MUTID] [--tier quick]"""
import json, os, shutil, subprocess, sys, tempfile, time
V = os.path.dirname(os.path.dirname(os.path.abspath(__file__)))
args = sys.argv[1:]
tier = "quick"
if "--tier" in args:
    tier = args[args.index("--tier") + 1]; del args[args.index("--tier"):args.index("--tier") + 2]
only = None
if "--id" in args:
    only = args[args.index("--id") + 1]; del args[args.index("--id"):args.index("--id") + 2]
props = [a.upper() for a in args]
muts = json.load(open(os.path.join(V, "tools", "mutants.json")))
rows = []
for m in muts:
    if props and m["prop"] not in props: continue
    if only and m["id"] != only: continue
    d = tempfile.mkdtemp(prefix="bctmut_")
    try:
        shutil.copytree("/repo/bct", os.path.join(d, "bct"))
        ok = True
        for ed in m["edits"]:
            p = os.path.join(d, ed["file"]); s = open(p).read()
            if s.count(ed["old"]) != ed.get("count", 1):
                print("MUTANT %s: pattern occurs %d times in %s (expected %d)" % (m["id"], s.count(ed["old"]), ed["file"], ed.get("count", 1))); ok = False; break
            s = s.replace(ed["old"], ed["new"]); open(p, "w").write(s)
        if not ok:
            rows.append((m["id"], m["prop"], "BAD-PATTERN", 0)); continue
        env = dict(os.environ, VERIF_REPO=d, VERIF_OUT=os.path.join(d, "out"))
        t0 = time.time()
        r = subprocess.run([os.path.join(V, "vcheck"), m["prop"], "--tier", tier], env=env, capture_output=True, text=True)
        keys = [l.strip() for l in r.stdout.splitlines() if l.startswith("  [")]
        rows.append((m["id"], m["prop"], {0: "MISSED", 1: "caught", 2: "HARNESS"}.get(r.returncode, str(r.returncode)), time.time() - t0, keys[:2]))
        if r.returncode == 2: print(r.stderr[-800:])
    finally:
        shutil.rmtree(d, ignore_errors=True)
for r in rows:
    print("%-34s %-4s %-8s %5.1fs %s" % (r[0], r[1], r[2], r[3], "; ".join(k[:90] for k in (r[4] if len(r) > 4 else []))))
sys.exit(0 if all(r[2] == "caught" for r in rows) else 1)
