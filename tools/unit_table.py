#!/usr/bin/env python3
"""Dev helper: markdown table of what the quick tier of every check ran (from evidence/*.json), inserted into DESIGN.md
between <!-- UNIT-TABLE-BEGIN --> and <!-- UNIT-TABLE-END -->."""
import glob, json, os
V = os.path.dirname(os.path.dirname(os.path.abspath(__file__)))
rows = ["| property | unit | cases | distinct non-trivial |", "|---|---|---|---|"]
tot = 0
for f in sorted(glob.glob(os.path.join(V, "evidence", "C*.json"))):
    e = json.load(open(f))
    pid = os.path.basename(f)[:-5]
    cov = e["coverage"]
    pu = cov.get("per_unit", {})
    many = len(pu) > 12
    if many:
        n = sum(v["evaluations"] for v in pu.values())
        small = sorted(pu.items(), key=lambda kv: -kv[1]["evaluations"])
        rows.append("| %s | %d units (one per routine / row; largest: %s) | %d | %d |" % (pid, len(pu), ", ".join(k for k, _ in small[:3]), n, cov["distinct_nontrivial"]))
    else:
        for k, v in pu.items():
            rows.append("| %s | %s | %d | %d |" % (pid, k.replace("|", "/"), v["evaluations"], v["distinct_nontrivial"]))
    tot += cov["evaluations"]
rows.append("")
rows.append("%d cases in one quick pass over all properties (tier and seed as recorded in the evidence files)." % tot)
p = os.path.join(V, "DESIGN.md")
s = open(p).read()
a, b = s.index("<!-- UNIT-TABLE-BEGIN -->") + len("<!-- UNIT-TABLE-BEGIN -->"), s.index("<!-- UNIT-TABLE-END -->")
open(p, "w").write(s[:a] + "\n" + "\n".join(rows) + "\n" + s[b:])
print("unit table refreshed")
