#!/usr/bin/env python3
"""Dev tool: run one unit's strategy without stopping at failures and histogram the failure keys.
usage: PYTHONPATH=/repo:/verif BCTPY_VERIF=1 /venv/bin/python tools/collect_keys.py C01 randomizer_bin_und 400"""
import sys, collections, importlib, warnings
warnings.simplefilter("ignore")
sys.path.insert(0, "/repo"); sys.path.insert(0, "/verif")
from hypothesis import given, settings, HealthCheck, seed
from bctverif import core
pid, uname, n = sys.argv[1], sys.argv[2], int(sys.argv[3])
mod = importlib.import_module("bctverif.props." + pid.lower())
unit = [u for u in mod.units("quick") if u.name == uname][0]
ctx = core.Ctx(uname); keys = collections.Counter(); ex = {}
@seed(1)
@settings(max_examples=n, database=None, deadline=None, suppress_health_check=list(HealthCheck))
@given(unit.strategy())
def t(case):
    for f in core.run_check(unit, case, ctx):
        keys[f.key] += 1; ex.setdefault(f.key, f.msg)
t()
print("evaluations", ctx.evaluations, "nontrivial", len(ctx.nontrivial), "timeouts", dict(ctx.timeouts), "rejections", dict(ctx.rejections))
for k, v in keys.most_common(): print("%5d  %s   e.g. %s" % (v, k, ex[k][:100]))
