#!/usr/bin/env python3
"""Dev helper: markdown table of the seeded changes from seeded/*/meta.json (+ tools/seed_notes.json)."""
import json, os, glob
V = os.path.dirname(os.path.dirname(os.path.abspath(__file__)))
notes = json.load(open(os.path.join(V, "tools", "seed_notes.json")))
rows = []
for d in sorted(glob.glob(os.path.join(V, "seeded", "*"))):
    sid = os.path.basename(d)
    m = json.load(open(os.path.join(d, "meta.json")))
    v = m.get("verification", {})
    summ = (m.get("summary") or "").replace("\n", " ").replace("|", "/")
    needs = (m.get("needs") or "").replace("\n", " ").replace("|", "/")
    rows.append((sid, summ[:110], needs[:110], "yes" if v.get("suite_ok") else ("?" if "suite_ok" not in v else "NO"),
                 {0: "MISSED", 1: "caught", 2: "harness"}.get(v.get("check_rc"), "?"), notes.get(sid, "")))
print("| id | change | needs | suite still 61/61 | quick check | note |\n|---|---|---|---|---|---|")
for r in rows:
    print("| " + " | ".join(r) + " |")
print("\n%d seeded changes, %d caught by the quick tier now, %d missed at first" % (len(rows), sum(r[4] == "caught" for r in rows), sum(bool(r[5]) for r in rows)))
