#!/usr/bin/env python3
"""Dev helper: regenerate MANIFEST.json from the table below and the property modules present."""
import json, os
V = os.path.dirname(os.path.dirname(os.path.abspath(__file__)))
TECH = {
 "C01": ("property-based testing (Hypothesis, constructive graph strategies): degree / weight-multiset / symmetry / re-index invariants of output vs input, plus per-swap edge-list invariant via BCTPY_VERIF hook", "5 C01"),
 "C02": ("property-based testing (Hypothesis): partition-validity predicate and modularity recomputed from the definition (independent O(n^2) oracle)", "5 C02"),
 "C03": ("exhaustive small-graph enumeration + property-based testing (Hypothesis) against an exact-rational Floyd-Warshall / BFS reference model; differential agreement of the five distance routines", "5 C03"),
 "C04": ("metamorphic property-based testing (Hypothesis): f(PAP^T) = P.f(A) over a table of measures, all n! permutations for small n", "5 C04"),
 "C05": ("stateful model-based testing (Hypothesis RuleBasedStateMachine) with a reference model of numpy's global RNG stream; repeatability and int-seed == RandomState differential", "5 C05"),
 "C06": ("property-based testing (Hypothesis): signed-degree and signed weight-multiset invariants, strength correlations recomputed independently", "5 C06"),
 "C07": ("property-based testing (Hypothesis): Q(result) >= Q(start) with Q from an independent oracle, hierarchy monotonicity, re-feed metamorphic relation, per-move gain vs exact delta-Q via BCTPY_VERIF hook", "5 C07"),
 "C08": ("exhaustive small-graph enumeration + property-based testing (Hypothesis, tie-rich lengths) against brute-force exact shortest-path counting", "5 C08"),
 "C09": ("exhaustive small-graph enumeration + property-based testing (Hypothesis) against O(n^3) triple enumeration of the published definitions", "5 C09"),
 "C10": ("differential property-based testing (Hypothesis + exhaustive 0/1 graphs): weighted vs binary routine on 0/1 input, directed vs undirected on symmetric input, W vs binarize(W)", "5 C10"),
 "C11": ("property-based testing (Hypothesis, bridge-rich constructive strategies): independent connectivity oracle on output and after every swap (hook), lattice-cost monotonicity, mask predicate, rejection clause", "5 C11"),
 "C12": ("property-based testing (Hypothesis + exhaustive small graphs): validity predicate walking every returned path edge by edge against exact shortest-path reference", "5 C12"),
 "C13": ("introspection-driven property-based testing (Hypothesis): deep snapshot of every array argument before/after each public call", "5 C13"),
 "C14": ("metamorphic property-based testing (Hypothesis): f(W,ci) = f(W,relabel(ci)); information-theoretic laws of partition_distance; ci2ls/ls2ci round trip", "5 C14"),
 "C15": ("exhaustive small-graph enumeration against a subset-enumeration oracle + property-based testing (Hypothesis) against an independent peeling reference", "5 C15"),
 "C16": ("exhaustive small-graph enumeration + property-based testing (Hypothesis, late-merge strategies) against a BFS reference model; differential agreement with the distance routines", "5 C16"),
 "C17": ("property-based testing (Hypothesis over exact-rational p, tie-rich weights): exact count / strongest-k / object-identity predicates", "5 C17"),
 "C18": ("property-based testing (Hypothesis + structured degenerate-spectrum families): residual of the defining equation, expm / matrix_power reference", "5 C18"),
 "C19": ("property-based testing (Hypothesis): scipy t-test + BFS component reference model, recorded-relabelling oracle for the null distribution, metamorphic group swap / subject reorder", "5 C19"),
 "C20": ("exhaustive (N,K) enumeration + property-based testing (Hypothesis over parameters and seeds): exact combinatorial predicates on the returned matrix", "5 C20"),
}
checks, na = [], []
for pid in sorted(TECH):
    tech, ref = TECH[pid]
    if os.path.exists(os.path.join(V, "bctverif", "props", pid.lower() + ".py")):
        checks.append({
            "property_id": pid,
            "quick_cmd": "./vcheck %s --tier quick" % pid,
            "thorough_cmd": "./vcheck %s --tier thorough" % pid,
            "evidence_file": "evidence/%s.json" % pid,
            "replay_cmd_template": "./vcheck %s --replay {path}" % pid,
            "engine": "bctverif",
            "level_claimed": {"category": "exploration",
                              "text": "Bounded generated-input search against an implementation-independent oracle: complete enumeration of the small scopes named in the evidence plus seeded Hypothesis search beyond them. It finds violations inside the explored bounds and shrinks them to a replay file; it proves nothing beyond those bounds.",
                              "design_ref": "DESIGN.md section " + ref},
            "level_note": "Trusted: CPython, numpy, scipy, Hypothesis, and the oracles in bctverif/oracles (cross-validated by bctverif.selftest at setup). Timeouts are inconclusive, BCTParamError on out-of-domain input is a rejection, floating-point comparisons use the tolerances stated in DESIGN.md.",
            "technique": tech,
        })
    else:
        na.append({"property_id": pid, "reason": "check not built yet at this commit (work in progress; planned per DESIGN.md section %s)" % ref})
m = {
 "version": 1,
 "setup_cmd": "./setup.sh",
 "hooks": {"guard": "BCTPY_VERIF", "enable": "checks run /venv/bin/python with BCTPY_VERIF=1 set before importing bct from /repo's working tree (pure Python, no build step)",
           "baseline_off_cmd": "cd /repo && env -u BCTPY_VERIF /venv/bin/python -m pytest -ra -q -p no:cacheprovider --timeout=900 --continue-on-collection-errors",
           "source_commits": json.load(open(os.path.join(V, "tools", "hook_commits.json"))) if os.path.exists(os.path.join(V, "tools", "hook_commits.json")) else [],
           "add_only": True},
 "engines": [{"name": "bctverif", "path": "bctverif/", "serves_properties": [c["property_id"] for c in checks],
              "kind_free_text": "Hypothesis 6.168 strategies + exhaustive enumerators + independent oracles, sharded over 16 processes; entry ./vcheck"}],
 "checks": checks,
 "notes": "Exit 0 = held (KNOWN-FINDING lines for entries of known_findings.json whose witness still fails); exit 1 = VIOLATION lines; exit 2 = harness problem. VERIF_SEED selects the Hypothesis seeds; exhaustive units ignore it.",
 "not_applicable": na,
}
json.dump(m, open(os.path.join(V, "MANIFEST.json"), "w"), indent=1)
print("checks:", [c["property_id"] for c in checks]); print("not built:", [x["property_id"] for x in na])
